#!/bin/sh
# sweep.sh <tier> <seed...>: run every claimed check for each base seed; print one line per run.
tier=$1; shift
for seed in "$@"; do
  for p in C04 C08 C09 C10 C12 C13 C14 C16 C17; do
    out=$(VERIF_SEED=$seed timeout 3600 /venv/bin/python -B check.py $p --tier $tier 2>&1); code=$?
    echo "seed=$seed $p exit=$code $(echo "$out" | grep -E "^violation:|HARNESS-ERROR|^$p:" | tr '\n' ' ' | cut -c1-400)"
  done
done
