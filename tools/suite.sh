#!/bin/sh
# Run the repository's pinned test suite (guard off) and print a summary line.
out=$(mktemp /tmp/suite.XXXXXX.xml)
cd /repo && timeout 1800 /venv/bin/python -m pytest -ra -q -p no:cacheprovider --timeout=900 --continue-on-collection-errors --color=no -W ignore --junitxml="$out" >/dev/null 2>&1
/venv/bin/python - "$out" <<'PY'
import sys, xml.etree.ElementTree as ET
r = ET.parse(sys.argv[1]).getroot()
s = r if r.tag == "testsuite" else r.find("testsuite")
print("tests=%s failures=%s errors=%s skipped=%s" % (s.get("tests"), s.get("failures"), s.get("errors"), s.get("skipped")))
for tc in s.iter("testcase"):
    if tc.find("failure") is not None or tc.find("error") is not None:
        print("FAILED", tc.get("classname"), tc.get("name"))
PY
rm -f "$out"
