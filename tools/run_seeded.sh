#!/bin/sh
# run_seeded.sh [tier] [ids...]: run the property's check against each seeded
# change (applied to a scratch copy of /repo/src selected with VERIF_REPO_SRC;
# /repo itself is never modified).  Expect exit 1 for each.
tier=${1:-quick}; shift
here=$(cd "$(dirname "$0")/.." && pwd)
ids="$@"; [ -z "$ids" ] && ids=$(ls $here/seeded)
for id in $ids; do
  prop=${id%%-*}
  tmp=$(mktemp -d /tmp/verif-seeded.XXXXXX)
  cp -r /repo/src $tmp/src
  if ! patch -s -p1 -d $tmp < $here/seeded/$id/patch.diff; then echo "$id PATCH-FAILED"; rm -rf $tmp; continue; fi
  out=$(cd $here && VERIF_REPO_SRC=$tmp/src VERIF_DET_N=4 timeout 1800 /venv/bin/python -B check.py $prop --tier $tier 2>&1); code=$?
  line=$(echo "$out" | grep -E "^violation:|HARNESS-ERROR" | head -1 | cut -c1-220)
  for rp in $(echo "$out" | grep "^VIOLATION" | sed 's/.*replay=//'); do rm -f $rp; done
  echo "$id exit=$code $line"
  rm -rf $tmp
done
