#!/bin/sh
# selfcheck.sh [seed]: run every registered quick check in /verif against /repo,
# then validate MANIFEST.json and every evidence file against their schemas.
seed=${1:-0}
cd /verif || exit 2
rc=0
for p in C04 C08 C09 C10 C12 C13 C14 C16 C17; do
  out=$(VERIF_SEED=$seed timeout 1800 /venv/bin/python -B check.py $p --tier quick 2>&1); code=$?
  echo "$p exit=$code $(echo "$out" | tail -1)"
  [ $code -ne 0 ] && rc=1
done
python3-vt - <<'PY' || rc=1
import json, jsonschema, glob, sys
m = json.load(open('/verif/MANIFEST.json'))
jsonschema.validate(m, json.load(open('/root/.vp/MANIFEST.schema.json')))
s = json.load(open('/root/.vp/EVIDENCE.schema.json'))
claimed = sorted(c['property_id'] for c in m['checks'])
na = sorted(n['property_id'] for n in m.get('not_applicable', []))
props = sorted(json.loads(l)['id'] for l in open('/verif/properties.jsonl'))
assert sorted(claimed + na) == props, (claimed, na)
for c in m['checks']:
    e = json.load(open(c['evidence_file']))
    jsonschema.validate(e, s)
    assert e['property_id'] == c['property_id'] and e['level'] == c['level_claimed']['category']
print("manifest + %d evidence files valid; %d claimed, %d not applicable" % (len(claimed), len(claimed), len(na)))
PY
exit $rc
