#!/bin/sh
# import_seeded.sh <prop> <suffix> <worktree>: copy patchN.diff/demoN.py of a
# sub-agent's worktree to seeded/<prop>-<suffix>N and confirm each one.
prop=$1; suf=$2; wt=$3
here=$(cd "$(dirname "$0")/.." && pwd)
for n in 1 2 3; do
  [ -f $wt/patch$n.diff ] || continue
  d=$here/seeded/$prop-$suf$n; mkdir -p $d
  cp $wt/patch$n.diff $d/patch.diff; cp $wt/demo$n.py $d/demo.py
  sh $here/tools/verify_seeded.sh $prop-$suf$n $wt
done
