#!/bin/sh
# verify_seeded.sh <seeded-id> <worktree>: confirm a seeded change in a scratch
# worktree: clean demo passes; with the patch the suite passes and the demo fails.
id=$1; wt=$2; d=/verif/seeded/$id
git -C $wt checkout -q -- . && git -C $wt clean -fdq src
cp $d/demo.py $wt/_demo.py
( cd $wt && PYTHONPATH=$wt/src timeout 300 /venv/bin/python _demo.py >/dev/null 2>&1 ); clean=$?
git -C $wt apply $d/patch.diff || { echo "$id APPLY-FAILED"; exit 1; }
( cd $wt && PYTHONPATH=$wt/src timeout 300 /venv/bin/python _demo.py >/dev/null 2>&1 ); patched=$?
suite=$(cd $wt && PYTHONPATH=$wt/src timeout 1500 /venv/bin/python -m pytest -q -p no:cacheprovider -W ignore --color=no 2>&1 | grep -E "passed|failed|error" | tail -1)
git -C $wt checkout -q -- . ; rm -f $wt/_demo.py
echo "$id clean_demo_exit=$clean patched_demo_exit=$patched suite: $suite"
