#!/venv/bin/python
"""CLI: check.py <Cxx> --tier quick|thorough [--replay f] [--runs n]

Imports py_gql from /repo/src (the current working tree; override with
VERIF_REPO_SRC for scratch copies used by the mutant self-tests).
"""
import argparse
import os
import sys

HERE = os.path.dirname(os.path.abspath(__file__))
SRC = os.environ.get("VERIF_REPO_SRC", "/repo/src")
sys.path.insert(0, SRC)
sys.path.insert(0, HERE)
sys.dont_write_bytecode = True


def main():
    ap = argparse.ArgumentParser()
    ap.add_argument("prop")
    ap.add_argument("--tier", default=os.environ.get("VERIF_TIER", "quick"),
                    choices=("quick", "thorough"))
    ap.add_argument("--replay")
    ap.add_argument("--runs", type=int)
    ap.add_argument("--budget", type=float)
    ap.add_argument("--digests", type=int)
    a = ap.parse_args()
    from sim import runner
    if a.digests:
        eng = runner.engine_for(a.prop)
        base = int(os.environ.get("VERIF_SEED", "0"))
        if hasattr(eng, "prepare"):
            eng.prepare(a.prop, a.tier, base)
        runner.digests_cli(a.prop, a.tier, base, a.digests)
        return 0
    if a.replay:
        eng = runner.engine_for(a.prop)
        if hasattr(eng, "prepare"):
            eng.prepare(a.prop, a.tier, int(os.environ.get("VERIF_SEED", "0")))
        return runner.replay_cli(a.prop, a.replay)
    return runner.main_check(a.prop, a.tier, runs=a.runs, budget_s=a.budget)


if __name__ == "__main__":
    try:
        code = main()
    except SystemExit:
        raise
    except BaseException:  # noqa: B902 - never exit 0/1 on a harness crash
        import traceback
        traceback.print_exc()
        print("HARNESS-ERROR unhandled exception in check.py")
        code = 3
    sys.stdout.flush()
    sys.exit(code)
