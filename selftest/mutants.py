#!/venv/bin/python
"""Sensitivity self-test: semantic mutants of py-gql that the checks must catch.

Not part of any registered command.  For each mutant: copy /repo/src to a
scratch directory, apply one textual replacement, run the property's quick
check against the copy (VERIF_REPO_SRC) and expect exit code 1 (VIOLATION).
The scratch copy is removed afterwards.

usage: selftest/mutants.py [mutant-id ...]   (default: all)
"""
import os
import shutil
import subprocess
import sys
import tempfile

HERE = os.path.dirname(os.path.dirname(os.path.abspath(__file__)))

MUTANTS = [
    # id, property, file, old, new, what
    ("m01-mutation-parallel", "C09", "execution/execute.py",
     "        exe_fn = executor.execute_fields_serially\n",
     "        exe_fn = executor.execute_fields\n",
     "mutation roots dispatched through execute_fields"),
    ("m02-serial-no-wait", "C09", "execution/executor.py",
     """                def cb(value):
                    resolved_fields[k] = value
                    return _next()

                return self.runtime.map_value(
                    self.resolve_field(parent_type, root, f, n, path + [k]), cb
                )
""",
     """                resolved_fields[k] = self.resolve_field(
                    parent_type, root, f, n, path + [k]
                )
                nxt = _next()
                return self.runtime.map_value(
                    self.runtime.gather_values(list(resolved_fields.values())),
                    lambda vs: OrderedDict(zip(resolved_fields.keys(), vs)),
                ) if not args else nxt
""",
     "serial chain starts the next root without waiting for the previous"),
    ("m03-gather-sync-count", "C08", "execution/runtime/threadpool.py",
     """            result_append(maybe_future)
            done += 1
""",
     """            result_append(maybe_future)
""",
     "gather_futures forgets to count non-future entries (hang)"),
    ("m04-gather-early-fire", "C08", "execution/runtime/threadpool.py",
     "        if done == target_count:\n",
     "        if done >= len(pending):\n",
     "gather_futures fires the aggregate early when sync entries exist"),
    ("m05-asyncio-shifted-index", "C08", "execution/runtime/asyncio.py",
     """                for i, awaited in zip(
                    pending_idx, await asyncio.gather(*pending)
                ):
                    done[i] = awaited
""",
     """                for i, awaited in zip(
                    pending_idx, await asyncio.gather(*pending)
                ):
                    done[i - (1 if len(pending_idx) > 2 and i else 0)] = awaited
""",
     "gather_values patches shifted slots when > 2 awaitables"),
    ("m06-unwrap-two-levels", "C08", "execution/runtime/asyncio.py",
     """                cur = await value
                while _isawaitable_fast(cur):
                    cur = await cur
""",
     """                cur = await value
                if _isawaitable_fast(cur):
                    cur = await cur
""",
     "asyncio unwrap limited to two levels"),
    ("m07-chain-lost-exception", "C08", "execution/runtime/threadpool.py",
     """                    if isinstance(err, exc_type):
                        target.set_result(cb(err))
                    else:
                        target.set_exception(err)
""",
     """                    if isinstance(err, exc_type):
                        target.set_result(cb(err))
""",
     "chain() drops a non-matching exception: target stays pending"),
    ("m08-field-end-fail", "C16", "execution/executor.py",
     """            self.add_error(err, path, node)
            self.instrumentation.on_field_end(
                parent_value, self.context_value, info
            )
            return None
""",
     """            self.add_error(err, path, node)
            return None
""",
     "on_field_end dropped from the generic executor's fail path"),
    ("m09-blocking-end-success-only", "C16",
     "execution/blocking_executor.py",
     """        finally:
            self.instrumentation.on_field_end(
                parent_value, self.context_value, info
            )

        return self.complete_value(
""",
     """        finally:
            pass

        self.instrumentation.on_field_end(
            parent_value, self.context_value, info
        )

        return self.complete_value(
""",
     "BlockingExecutor fires on_field_end only on success"),
    ("m10-middleware-dup", "C16", "execution/executor.py",
     """            if self._middlewares:
                wrapped = apply_middlewares(wrapped, self._middlewares)
            self._resolver_cache[base] = wrapped
""",
     """            if self._middlewares:
                wrapped = apply_middlewares(wrapped, self._middlewares)
                if len(self._middlewares) > 1 and parent_type.interfaces:
                    wrapped = apply_middlewares(wrapped, self._middlewares[:1])
            self._resolver_cache[base] = wrapped
""",
     "first middleware applied twice for types implementing an interface"),
    ("m11-memo-not-reset", "C13", "schema/schema.py",
     """        field.resolver = resolver
        # Invalidate validation
        self._is_valid = None

    def register_subscription(""",
     """        field.resolver = resolver

    def register_subscription(""",
     "_is_valid not reset in register_resolver"),
    ("m12-clone-shares-members", "C14", "schema/schema.py",
     "                t.name: _clone_type(t)\n",
     "                t.name: copy.copy(t)\n",
     "Schema.clone shares member objects again"),
    ("m13-printer-generator", "C12", "sdl/ast_schema_printer.py",
     "_SPECIFIED_DIRECTIVE_NAMES = tuple(d.name for d in SPECIFIED_DIRECTIVES)",
     "_SPECIFIED_DIRECTIVE_NAMES = (d.name for d in SPECIFIED_DIRECTIVES)",
     "printer's specified-directive names are a generator again"),
    ("m14-clear-errors", "C17", "execution/subscribe.py",
     "    executor.clear_errors()\n", "    pass\n",
     "clear_errors() removed from execute_subscription_event"),
    ("m15-args-cache-shared", "C04", "execution/wrappers.py",
     """        self._argument_values = (
            {}
        )  # type: Dict[Tuple[Field, ast.Field], Dict[str, Any]]
""",
     """        self._argument_values = _SHARED_ARGUMENT_VALUES
""",
     "argument cache shared between requests (keyed by node identity)"),
    ("m16-nonnull-error-no-path", "C10", "execution/executor.py",
     """                    nodes=nodes,
                    path=path,
                )
            )
        return resolved_value
""",
     """                    nodes=nodes,
                    path=path if len(path) < 3 else path[:-1],
                )
            )
        return resolved_value
""",
     "non-null error path truncated for deep positions"),
    ("m17-possible-types-stale", "C04", "schema/schema.py",
     """        if isinstance(abstract_type, UnionType):
            self._possible_types[abstract_type] = abstract_type.types or []
""",
     """        if isinstance(abstract_type, UnionType):
            self._possible_types[abstract_type] = (
                abstract_type.types or []
            )[: max(1, 3 - len(self._possible_types))]
""",
     "union possible types truncated depending on earlier cache fills"),
]

EXTRA = {
    "m15-args-cache-shared": (
        "execution/wrappers.py", "_UNSET = object()\n",
        "_UNSET = object()\n_SHARED_ARGUMENT_VALUES = {}  # type: ignore\n"),
}


def run(mid, prop, rel, old, new, what, runs):
    tmp = tempfile.mkdtemp(prefix="verif-mutant-")
    try:
        src = os.path.join(tmp, "src")
        shutil.copytree("/repo/src", src)
        path = os.path.join(src, "py_gql", rel)
        text = open(path).read()
        if text.count(old) != 1:
            return "STALE (pattern found %d times)" % text.count(old)
        open(path, "w").write(text.replace(old, new))
        if mid in EXTRA:
            rel2, o2, n2 = EXTRA[mid]
            p2 = os.path.join(src, "py_gql", rel2)
            t2 = open(p2).read()
            assert t2.count(o2) == 1
            open(p2, "w").write(t2.replace(o2, n2))
        env = dict(os.environ, VERIF_REPO_SRC=src, VERIF_DET_N="4")
        p = subprocess.run(
            [sys.executable, "-B", os.path.join(HERE, "check.py"), prop,
             "--tier", "quick", "--runs", str(runs)],
            env=env, capture_output=True, text=True, timeout=1200)
        line = [l for l in p.stdout.splitlines()
                if l.startswith(("violation:", "HARNESS-ERROR"))]
        for l in p.stdout.splitlines():
            if l.startswith("VIOLATION"):
                rp = l.split("replay=")[1]
                if os.path.exists(rp):
                    os.remove(rp)
        return "exit=%d %s" % (p.returncode, line[0][:160] if line else "")
    finally:
        shutil.rmtree(tmp, ignore_errors=True)


def main():
    want = sys.argv[1:]
    runs = int(os.environ.get("MUTANT_RUNS", "600"))
    caught = 0
    total = 0
    for m in MUTANTS:
        if want and m[0] not in want:
            continue
        total += 1
        r = run(*m, runs=runs)
        ok = r.startswith("exit=1")
        caught += ok
        print("%-32s %-4s %-7s %s" % (m[0], m[1],
                                      "CAUGHT" if ok else "MISSED", r))
        sys.stdout.flush()
    print("%d/%d mutants caught" % (caught, total))


if __name__ == "__main__":
    main()
