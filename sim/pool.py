"""SimExecutor (L1) -- completion-order simulation of the thread pool that sits
behind ``ThreadPoolRuntime._inner``.

``submit`` returns a *real* ``concurrent.futures.Future`` and registers a kernel
item.  Completing the item runs the function in the simulator thread and calls
``set_result`` / ``set_exception`` so that py-gql's done-callbacks (``chain``,
``gather_futures.on_finish``, ``unwrap_future.cb``) run exactly as they would
on the completing worker thread.

Reproduced behaviours of a real pool:
 * any completion order of in-flight tasks (latency + tie draws);
 * worker faster than caller: inside ``submit`` -- before the future is handed
   back -- the scheduler may complete any prefix of the due items, including
   the task just submitted, so the caller attaches its callback to an already
   done future (callback runs inline on the attaching "thread") and earlier
   fields' continuations run while the submitting code is still in its loop;
 * nested futures (a task returning a future).

A ``SimFuture.result()`` on a not-done future does not wait on the OS condition
(that would freeze the only thread): it steps the kernel -- "other workers make
progress while this one is blocked" -- until the future is done, or reports
``Hang`` when nothing is left to run.
"""
import concurrent.futures as cf

from .kernel import Hang


class SimFuture(cf.Future):
    kernel = None  # set per run by install()
    blocking_waits = 0

    def result(self, timeout=None):
        if not self.done():
            k = SimFuture.kernel
            if k is None:
                return super().result(timeout)
            SimFuture.blocking_waits += 1
            while not self.done():
                if not k.step():
                    raise Hang()
        return super().result(0)

    def exception(self, timeout=None):
        if not self.done():
            k = SimFuture.kernel
            if k is None:
                return super().exception(timeout)
            SimFuture.blocking_waits += 1
            while not self.done():
                if not k.step():
                    raise Hang()
        return super().exception(0)


class SimExecutor:
    def __init__(self, kernel, inline_rate=4):
        self.kernel = kernel
        self.submitted = 0
        # 1-in-N chance (per submit) that workers outrun the caller
        self.inline_rate = inline_rate
        self._shutdown = False

    def submit(self, fn, *args, **kwargs):
        if self._shutdown:
            raise RuntimeError("cannot schedule new futures after shutdown")
        kernel = self.kernel
        fut = SimFuture()
        self.submitted += 1

        def run():
            if not fut.set_running_or_notify_cancel():
                return
            try:
                res = fn(*args, **kwargs)
            except BaseException as err:  # noqa: B902 - mirrors _WorkItem.run
                if isinstance(err, (KeyboardInterrupt, SystemExit, Hang)):
                    raise
                fut.set_exception(err)
            else:
                fut.set_result(res)

        kernel.schedule(kernel.draw_latency("pool-lat"), "pool", run)

        # Worker faster than caller: complete some due work before returning.
        pol = kernel.policy.get("kind")
        if pol == "inline":
            n = len(kernel.heap)
        elif pol in ("fifo", "lifo"):
            n = 0
        else:
            n = 0
            if kernel.stream.chance(1, self.inline_rate, "outrun"):
                n = 1 + kernel.stream.below(3, "outrun-n")
        while n > 0 and kernel.heap:
            # the caller thread is descheduled inside submit() while workers
            # complete n items (the virtual clock may advance meanwhile)
            kernel.stats["inline_completions"] += 1
            kernel.step()
            n -= 1
        return fut

    def shutdown(self, wait=True, **kw):
        self._shutdown = True
