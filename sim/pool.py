"""SimExecutor (L1) -- completion-order simulation of the thread pool that sits
behind ``ThreadPoolRuntime._inner``.

``submit`` returns a *real* ``concurrent.futures.Future`` and registers a kernel
item.  Completing the item runs the function in the simulator thread and calls
``set_result`` / ``set_exception`` so that py-gql's done-callbacks (``chain``,
``gather_futures.on_finish``, ``unwrap_future.cb``) run exactly as they would
on the completing worker thread.

Reproduced behaviours of a real pool:
 * any completion order of in-flight tasks (latency + tie draws);
 * worker faster than caller: inside ``submit`` -- before the future is handed
   back -- the scheduler may complete any prefix of the due items, including
   the task just submitted, so the caller attaches its callback to an already
   done future (callback runs inline on the attaching "thread") and earlier
   fields' continuations run while the submitting code is still in its loop;
 * nested futures (a task returning a future).

A ``SimFuture.result()`` on a not-done future does not wait on the OS condition
(that would freeze the only thread): it steps the kernel -- "other workers make
progress while this one is blocked" -- until the future is done, or reports
``Hang`` when nothing is left to run.
"""
import concurrent.futures as cf

from .kernel import Hang


class SimFuture(cf.Future):
    kernel = None  # set per run by install()
    executor = None
    blocking_waits = 0

    def _wait(self):
        """A thread blocks on this future.  If it is a pool worker (we are
        inside a task or one of its completion callbacks) it keeps its worker
        occupied: other workers make progress meanwhile, and when every
        worker is blocked nothing can ever complete -- a deadlock of the
        bounded pool, reported as Hang."""
        k = SimFuture.kernel
        ex = SimFuture.executor
        SimFuture.blocking_waits += 1
        in_task = ex is not None and ex.task_depth > 0
        if in_task:
            ex.blocked_workers += 1
            if ex.blocked_workers >= ex.nworkers:
                ex.blocked_workers -= 1
                # sticky: stdlib's callback machinery swallows exceptions
                k.deadlock = True
                raise Hang("every pool worker (%d) is blocked in "
                           "Future.result() inside a task" % ex.nworkers)
        try:
            while not self.done():
                if not k.step():
                    raise Hang()
        finally:
            if in_task:
                ex.blocked_workers -= 1

    def result(self, timeout=None):
        if not self.done():
            if SimFuture.kernel is None:
                return super().result(timeout)
            self._wait()
        return super().result(0)

    def exception(self, timeout=None):
        if not self.done():
            if SimFuture.kernel is None:
                return super().exception(timeout)
            self._wait()
        return super().exception(0)


class SimExecutor:
    def __init__(self, kernel, inline_rate=4, nworkers=1):
        self.kernel = kernel
        self.nworkers = nworkers  # bound of the simulated pool
        self.blocked_workers = 0
        self.task_depth = 0
        self.submitted = 0
        # 1-in-N chance (per submit) that workers outrun the caller
        self.inline_rate = inline_rate
        self._shutdown = False

    def submit(self, fn, /, *args, **kwargs):
        if self._shutdown:
            raise RuntimeError("cannot schedule new futures after shutdown")
        kernel = self.kernel
        fut = SimFuture()
        self.submitted += 1

        def run():
            if not fut.set_running_or_notify_cancel():
                return
            self.task_depth += 1
            try:
                try:
                    res = fn(*args, **kwargs)
                except BaseException as err:  # noqa: B902 - as _WorkItem.run
                    if isinstance(err, (KeyboardInterrupt, SystemExit, Hang)):
                        raise
                    fut.set_exception(err)
                else:
                    fut.set_result(res)
            finally:
                self.task_depth -= 1

        kernel.schedule(kernel.draw_latency("pool-lat"), "pool", run)

        # Worker faster than caller: complete some due work before returning.
        pol = kernel.policy.get("kind")
        if pol == "inline":
            n = len(kernel.heap)
        elif pol in ("fifo", "lifo", "pick"):
            n = 0
        else:
            n = 0
            if kernel.stream.chance(1, self.inline_rate, "outrun"):
                n = 1 + kernel.stream.below(3, "outrun-n")
        while n > 0 and kernel.heap:
            # the caller thread is descheduled inside submit() while workers
            # complete n items (the virtual clock may advance meanwhile)
            kernel.stats["inline_completions"] += 1
            kernel.step()
            n -= 1
        return fut

    def shutdown(self, wait=True, **kw):
        self._shutdown = True
