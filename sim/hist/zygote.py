"""Restart oracle for C12: what does a *fresh process* print?

Started as a fresh interpreter.  Imports py_gql, builds the pool (no printer
call), then for every (schema, options) pair forks a child that performs the
print as the first printer call of its life and hands the text back.
"""
import json
import os
import sys

HERE = os.path.dirname(os.path.dirname(os.path.dirname(
    os.path.abspath(__file__))))
sys.path.insert(0, os.environ.get("VERIF_REPO_SRC", "/repo/src"))
sys.path.insert(0, HERE)


def main():
    seed = int(sys.argv[1])
    n_sdl = int(sys.argv[2]) if len(sys.argv) > 2 else 7
    from sim.hist import pool as _pool
    from sim.hist.c12 import OPTS, opt_kwargs
    pool = _pool.build_pool(seed, n_sdl=n_sdl)
    table = {}
    for i, entry in enumerate(pool):
        for j, opt in enumerate(OPTS):
            r, w = os.pipe()
            pid = os.fork()
            if pid == 0:
                os.close(r)
                try:
                    text = entry.schema.to_string(**opt_kwargs(opt))
                    out = {"text": text}
                except Exception as err:  # noqa: B902
                    out = {"error": type(err).__name__}
                with os.fdopen(w, "w") as f:
                    json.dump(out, f)
                os._exit(0)
            os.close(w)
            with os.fdopen(r) as f:
                data = f.read()
            os.waitpid(pid, 0)
            table["%d:%d" % (i, j)] = json.loads(data)
    json.dump({"sdl": [e.sdl for e in pool], "table": table}, sys.stdout)


if __name__ == "__main__":
    main()
