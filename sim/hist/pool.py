"""Schema pool for the history machines (C12, C13, C14).

The pool is a deterministic function of the check's base seed: SDL-built
schemas (custom directive definitions and applications, @deprecated with and
without reason, short and multi-line descriptions, defaults of every input
kind, extensions, renamed roots) and code-built schemas (internal enum values,
custom scalars with non-identity serialisation).
"""
import random

from py_gql import build_schema
from py_gql.schema import (
    Argument,
    Directive,
    EnumType,
    EnumValue,
    Field,
    InputField,
    InputObjectType,
    Int,
    InterfaceType,
    ListType,
    NonNullType,
    ObjectType,
    ScalarType,
    Schema,
    String,
    UnionType,
)

DESCS = (
    None,
    "Short description.",
    "With `code` and - dashes_and_underscores",
    "First line\nsecond line",
    "Para one\n\nPara two, after a blank line",
    "Kept blank\n \nabove: a line holding one space",
    "A single line that is longer than seventy characters but well below the wrap limit.",
    'Ends with a "quote"',
    "  leading blanks on the first line\nsecond",
    'Triple """ quotes inside',
    'How to escape them: \\""" (backslash, then three quotes)',
    "A back\\slash and a tab\tcharacter",
    "A Windows path prefix: C:\\",
)


def _desc(r, indent=""):
    d = DESCS[r.randrange(len(DESCS))] if r.random() < 0.45 else None
    if d is None:
        return ""
    d = d.replace('"""', '\\"""')  # the one escape of block strings
    if "\n" in d or d.endswith('"') or d.startswith(" ") or d.endswith("\\"):
        body = "\n".join(indent + l if l else "" for l in d.split("\n"))
        return '%s"""\n%s\n%s"""\n' % (indent, body, indent)
    return '%s"""%s"""\n' % (indent, d)


def _dirs(r, loc, custom=True):
    """Directive applications valid at ``loc``."""
    out = []
    if custom and r.random() < 0.3:
        args = []
        if r.random() < 0.6:
            args.append('name: "%s"' % r.choice(("a", "b c", 'q\\"x')))
        if r.random() < 0.3:
            args.append("n: %d" % r.randrange(5))
        out.append("@tag" + ("(%s)" % ", ".join(args) if args else ""))
    if custom and loc in ("FIELD_DEFINITION", "OBJECT") and r.random() < 0.15:
        out.append("@flag")
    return (" " + " ".join(out)) if out else ""


def _deprecated(r):
    x = r.random()
    if x < 0.12:
        return " @deprecated"
    if x < 0.24:
        return ' @deprecated(reason: "%s")' % r.choice(
            ("use other", 'old \\"thing\\"', "No longer supported",
             # reasons of several lines (Markdown, code blocks, pasted text):
             # leading / trailing line breaks, common indentation, CR LF
             "first line\\nsecond line", "\\nleading break",
             "trailing break\\n", "    code block\\n    more code",
             "dos\\r\\nline ends\\r\\n", "tab\\tinside",
             "  padded  "))
    return ""


DEFAULTS = {
    "Box": ("{pt: {x: 1}}", "{pt: {x: 2, y: 5}, tags: [\"a\"]}", "null"),
    "[Pt!]": ("[{x: 1}, {x: 2, y: 0}]", "[]"),
    "Int": ("0", "-3", "42"),
    "Float": ("1.5", "0.25", "-2.0", "0.0000001", "1e+20", "-1.5E-9"),
    # the SDL pool's custom scalar: string defaults that look like numbers
    "Date": ('"2020-01-01"', '"02134"', '"1e3"', '"12"', "7", '"inf"', '"nan"',
             '"-inf"', '"Infinity"'),
    "String": ('"x"', '"two words"', '"q\\"uote"', '""'),
    "Boolean": ("true", "false"),
    "ID": ('"abc"', "12", '"12\\n"', '"007"'),
    "Color": ("RED", "BLUE"),
    "[Int]": ("[1, 2]", "[]", "null"),
    "[Color!]": ("[RED]", "[GREEN, BLUE]"),
    "Pt": ("{x: 1}", "{x: 2, y: 3}", "{x: 0, tag: \"t\"}"),
    # an input object all of whose fields are optional: the empty object is a
    # value of its own
    "Opts": ("{}", "{tag: \"x\"}", "{n: 2, tag: \"\"}"),
    "[Opts!]": ("[{}, {tag: \"x\"}]", "[{}]", "[]"),
}


def gen_sdl(seed, idx):
    r = random.Random("pool:%d:%d" % (seed, idx))
    out = []
    style = r.random()
    renamed = style < 0.3
    crossed = 0.3 <= style < 0.45  # a root named after another operation
    qname = "RootQ" if renamed else "Query"
    mname = "RootM" if renamed else ("Subscription" if crossed
                                     else "Mutation")
    has_mut = crossed or r.random() < 0.5
    # an ordinary object type that happens to be called like a root operation
    # (the schema block lists the roots, so it is none)
    stray = (not renamed and not crossed and not has_mut
             and r.random() < 0.4)
    out.append('%sdirective @tag(name: String = "t", n: Int, shade: Color = RED, '
               'at: Pt) on OBJECT | '
               "FIELD_DEFINITION | ARGUMENT_DEFINITION | ENUM_VALUE | "
               "INPUT_FIELD_DEFINITION | INTERFACE | UNION | ENUM | SCALAR | "
               "INPUT_OBJECT | SCHEMA" % _desc(r))
    out.append("directive @flag on FIELD_DEFINITION | OBJECT")
    if r.random() < 0.5:
        # legal: directives and types live in different namespaces
        out.append("directive @Color(fmt: String) on FIELD_DEFINITION")
    if renamed or crossed or stray or r.random() < 0.2:
        sd = "schema%s { query: %s%s }" % (
            _dirs(r, "SCHEMA"), qname,
            (" mutation: %s" % mname) if has_mut else "")
        out.append(sd)
    out.append("%sscalar Date%s" % (_desc(r), _dirs(r, "SCALAR")))
    vals = []
    for v in ("RED", "GREEN", "BLUE"):
        vals.append("%s  %s%s%s" % (_desc(r, "  "), v, _deprecated(r),
                                    _dirs(r, "ENUM_VALUE")))
    out.append("%senum Color%s {\n%s\n}" % (_desc(r), _dirs(r, "ENUM"),
                                          "\n".join(vals)))
    out.append(
        "%sinput Pt%s {\n  x: Int!\n%s  y: Int = %s%s\n  tag: String\n"
        "  z_index: Int\n}" % (
            _desc(r), _dirs(r, "INPUT_OBJECT"), _desc(r, "  "),
            r.choice(DEFAULTS["Int"]), _dirs(r, "INPUT_FIELD_DEFINITION")))

    out.append(
        "%sinput Box {\n  pt: Pt! = {x: 7}\n  tags: [String!]\n"
        "  shade: Color = GREEN\n  fill_color: Color\n}" % _desc(r))

    out.append("input Opts {\n  tag: String\n  n: Int\n}")

    # a small palette of argument kinds per schema, so that several fields
    # declare the same argument names (with or without defaults)
    palette = r.sample(sorted(DEFAULTS), 4)

    def args():
        n = r.choice((0, 0, 1, 1, 2, 3))
        parts = []
        names = r.sample(palette, n)
        described = r.random() < 0.25
        for t in names:
            a = "a_%s: %s" % (t.strip("[]!").lower() + ("s" if "[" in t
                                                        else ""), t)
            if r.random() < 0.6:
                a += " = %s" % r.choice(DEFAULTS[t])
            a += _dirs(r, "ARGUMENT_DEFINITION")
            if described:
                a = _desc(r, "    ") + "    " + a
            parts.append(a)
        if described and parts:
            return "(\n%s\n  )" % "\n".join(parts)
        return "(%s)" % ", ".join(parts) if parts else ""

    n_obj = 2 + r.randrange(3)
    objs = ["Obj%d" % i for i in range(n_obj)]
    has_if = r.random() < 0.7
    if has_if:
        out.append("%sinterface Node%s {\n%s  id: ID!%s\n}" % (
            _desc(r), _dirs(r, "INTERFACE"), _desc(r, "  "),
            _dirs(r, "FIELD_DEFINITION")))
    leaf = ("Int", "String", "Float", "Boolean", "ID", "Color", "Date",
            "[Int!]", "String!", "[Color]", "[[Int!]!]!", "[Date]")
    has_if2 = has_if and r.random() < 0.4
    # interface field arguments of enum / input-object type now and then (the
    # implementations repeat them)
    label_args = "(a_int: Int = 1)" if r.random() < 0.5 else \
        "(a_int: Int = 1, shade: Color = RED, at: Pt, opts: [Opts!])"
    if has_if2:
        out.append("interface Tagged {\n  label%s: String\n}" % label_args)
    members = []
    for i, o in enumerate(objs):
        impl = has_if and r.random() < 0.6
        impl2 = has_if2 and r.random() < 0.5
        fields = []
        if impl:
            fields.append("  id: ID!")
            members.append(o)
        if impl2:
            fields.append("  label%s: String" % label_args)
        for j in range(1 + r.randrange(3)):
            t = r.choice(leaf + tuple(objs) + (("Node",) if has_if else ()))
            if t in objs or t == "Node":
                # references to composite types through wrappers
                t = r.choice(("%s", "%s", "%s!", "[%s]", "[%s!]!")) % t
            fields.append("%s  f_%d%s: %s%s%s" % (
                _desc(r, "  "), j, args(), t, _deprecated(r),
                _dirs(r, "FIELD_DEFINITION")))
        ifaces = [n for n, on in (("Node", impl), ("Tagged", impl2)) if on]
        out.append("%stype %s%s%s {\n%s\n}" % (
            _desc(r), o,
            (" implements " + " & ".join(ifaces)) if ifaces else "",
            _dirs(r, "OBJECT"), "\n".join(fields)))
    if has_if and not members:
        out.append("type Impl implements Node {\n  id: ID!\n}")
        objs.append("Impl")
    has_union = r.random() < 0.6
    if has_union:
        ms = r.sample(objs, 1 + r.randrange(min(3, len(objs))))
        out.append("%sunion Any%s = %s" % (_desc(r), _dirs(r, "UNION"),
                                          " | ".join(ms)))
    qf = []
    for j in range(2 + r.randrange(3)):
        t = r.choice(tuple(objs) + ("Int", "[String]", "Color")
                     + (("Any",) if has_union else ())
                     + (("Node",) if has_if else ()))
        if t in objs or t in ("Any", "Node"):
            t = r.choice(("%s", "%s", "[%s]", "[%s!]!", "%s!")) % t
        qf.append("%s  q_%d%s: %s%s%s" % (
            _desc(r, "  "), j, args(), t, _deprecated(r),
            _dirs(r, "FIELD_DEFINITION")))
    # always: empty object literals as defaults (alone and inside a list)
    qf.append("  q_opts(o: Opts = {}, os: [Opts!] = [{}, {tag: \"x\"}]): Int")
    out.append("type %s {\n%s\n}" % (qname, "\n".join(qf)))
    if has_mut:
        out.append("type %s {\n  do_it(p: Pt = {x: 1}): Int\n}" % mname)
    if stray:
        out.append("type Mutation {\n  stray: Int\n}")
        out.append("extend type %s {\n  stray_m: Mutation\n}" % qname)
    if not (renamed or crossed) and r.random() < 0.3:
        out.append("type Subscription {\n  ticks(a_int: Int = 3): Int\n}")
    # extensions
    if has_union and r.random() < 0.3:
        out.append("type ExtraMember {\n  n: Int\n}")
        out.append("extend union Any%s = ExtraMember" % _dirs(r, "UNION"))
    if r.random() < 0.3:
        out.append("extend scalar Date @tag(name: \"ext\")")
    if r.random() < 0.5:
        out.append("extend type %s%s {\n  extra_field: Int%s\n}" % (
            qname, _dirs(r, "OBJECT"), _dirs(r, "FIELD_DEFINITION")))
    if r.random() < 0.3:
        out.append("extend enum Color%s {\n  PURPLE\n}" % _dirs(r, "ENUM"))
    if r.random() < 0.3:
        out.append("extend input Pt {\n  z: Int\n}")
    if has_if and r.random() < 0.5:
        # two legal type names that differ by case only: "node" next to the
        # interface "Node" (the lower-case one referenced from a type that
        # sorts before both)
        out.append("type node {\n  n: Int\n}")
        out.append("type Edge {\n  to: node\n}")
        out.append("extend type %s {\n  edge: Edge\n}" % qname)
    if r.random() < 0.35:
        # legal user types with ONE leading underscore (federation style):
        # only names starting with two underscores are reserved
        out.append("union _Entity = %s" % " | ".join(objs[:2]))
        out.append("type _Service {\n  sdl: String\n  owner: %s\n"
                   "  parts: [%s!]\n}" % (objs[0], objs[-1]))
        out.append("extend type %s {\n  _entities: [_Entity]\n"
                   "  _service: _Service\n}" % qname)
    if r.random() < 0.5:
        # an ordinary object type whose name is a root operation name in
        # another case (root types are found by their exact names)
        alike = r.choice(("mutation", "SUBSCRIPTION", "subscription",
                          "Queries", "MUTATION"))
        out.append("type %s {\n  n: Int\n}" % alike)
        out.append("extend type %s {\n  alike: %s\n}" % (qname, alike))
    return out


def join_sdl(parts):
    return "\n\n".join(parts) + "\n"


def code_schema(idx):
    """Code-built schemas: internal enum values differ from their names."""
    # the two code-built schemas share type names but map them differently
    # (same python value, different enum name), as two services in one
    # process would
    dark, light = (1, 2) if idx % 2 == 0 else (2, 1)
    color = EnumType(
        "Shade",
        [
            EnumValue("DARK", dark, description="low"),
            EnumValue("LIGHT", light, deprecation_reason="too bright"),
            ("MID", (3, "t")),
        ],
        description="Enum with internal values\n \n(blank line above)",
    )
    anyt = ScalarType("Any", serialize=lambda v: v, parse=lambda v: v)
    # internal values that are strings, one of them spelt like ANOTHER
    # member's name
    mode = EnumType("Mode", [("FIRST", "SECOND"), ("SECOND", "second_ci"),
                             ("THIRD", "third")])
    stamp = ScalarType(
        "Stamp", serialize=lambda v: "S:%d" % v,
        parse=lambda v: int(str(v)[2:]), description="custom scalar",
        # literals are parsed by a function of their own
        parse_literal=lambda node, variables=None: int(
            str(node.value)[2:]))
    box = InputObjectType(
        "Box",
        [
            InputField("w", NonNullType(Int)),
            InputField("shade", color, default_value=2),
            InputField("labels", ListType(NonNullType(String)),
                       default_value=["a", "b"]),
        ],
    )
    node = InterfaceType("Thing", [Field("name", String)])
    a = ObjectType(
        "A", [Field("name", String), Field("shade", color),
              Field("at", stamp, deprecation_reason="No longer supported")],
        interfaces=[node])
    b = ObjectType(
        "B", [Field("name", String),
              Field("peer", lambda: a, description="to A")],
        interfaces=[node])
    u = UnionType("AB", [a, b])
    # code-first type resolvers hand back the type OBJECTS they were written
    # against (documented: an ObjectType or a name)
    def rt_objects(value, ctx, info):
        return b if isinstance(value, dict) and "peer" in value else a

    node.resolve_type = rt_objects
    u.resolve_type = rt_objects
    q = ObjectType(
        "Query",
        [
            Field("thing", node, args=[
                Argument("shade", color, default_value=(3, "t")),
                # (a default dict written in another order than the type's
                # fields: printing goes by the type)
                Argument("box", box, default_value={
                    "labels": ["x"], "shade": 1, "w": 1}),
                Argument("n", Int, default_value=None),
            ]),
            Field("ab", ListType(u)),
            Field("snake_case_name", String, args=[
                Argument("some_arg", NonNullType(Int)),
                Argument("mode", mode, default_value="SECOND"),
                Argument("modes", ListType(mode),
                         default_value=["second_ci", "SECOND"]),
                Argument("one", anyt, default_value=1),
                Argument("yes", anyt, default_value=True),
                Argument("ratio", anyt, default_value=1.5)]),
        ],
    )
    extra = [Directive("mark", ["FIELD_DEFINITION"],
                       args=[Argument("level", Int, default_value=1)])] \
        if idx % 2 else []
    return Schema(q, directives=extra, types=[a, b, u])


class PoolEntry:
    __slots__ = ("name", "sdl", "schema", "kind", "parts")

    def __init__(self, name, sdl, schema, kind, parts=None):
        self.name, self.sdl, self.schema, self.kind = name, sdl, schema, kind
        self.parts = parts


def build_pool(seed, n_sdl=7, n_code=2):
    pool = []
    for i in range(n_sdl):
        parts = gen_sdl(seed, i)
        sdl = join_sdl(parts)
        pool.append(PoolEntry("sdl%d" % i, sdl, build_schema(sdl), "sdl",
                              parts))
    for i in range(n_code):
        s = code_schema(i)
        s.validate()
        pool.append(PoolEntry("code%d" % i, None, s, "code"))
    return pool
