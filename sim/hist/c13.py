"""C13 history machine: the validation verdict is recomputed after resolvers
are reassigned, and does not depend on the order in which types are supplied.

Model: a dict ``field -> current callable`` (+ per-type and global default
resolvers).  At every *check* operation ``schema.validate()`` must raise iff
validating a **freshly built** schema that carries exactly the model's
assignment raises, with the same set of messages.  Every documented way of
(re)assigning a resolver is a route (docs/usage/defining-resolvers.rst).
"""
import functools
import hashlib
import random

from py_gql import build_schema, process_graphql_query
from py_gql.exc import SchemaError, SchemaValidationError
from py_gql.schema import ObjectType

from ..execsim import CaseResult
from ..oracles import Violation

P = ("C13",)


# -- callables with assorted signatures ------------------------------------
def r_kwargs(root, ctx, info, **kw):
    return None


def r_noargs(root, ctx, info):
    return None


def r_two(root, ctx):
    return None


def r_extra(root, ctx, info, extra, **kw):
    return None


def r_posonly(root, ctx, info, a_int=None, a_string=None, /, **kw):
    return None


def r_nodefault(root, ctx, info, a_int, **kw):
    return None


def r_star(*a, **kw):
    return None


def r_named(root, ctx, info, a_int=None, a_string=None, a_boolean=None,
            a_float=None, a_id=None, a_color=None, a_pt=None, a_ints=None,
            a_colors=None, p=None):
    return None


def r_kw_short(root, ctx, **kw):
    return None


def r_kw_only(**kw):
    return None


def r_kwonly_req(root, ctx, info, *, extra2, **kw):
    return None


def r_kwonly_ok(root, ctx, info, *, a_int=None, **kw):
    return None


class _Methods:
    def m_ok(self, root, ctx, info, **kw):
        return None

    def m_short(self, root, **kw):
        return None

    def __call__(self, root, ctx, info, **kw):
        return None


def _four(prefix, root, ctx, info, **kw):
    return None


_M = _Methods()
m_ok = _M.m_ok
m_short = _M.m_short
obj_ok = _M
obj_ok.__name__ = "obj_ok"
partial_ok = functools.partial(_four, 1)
partial_ok.__name__ = "partial_ok"
partial_short = functools.partial(_four, 1, 2, 3)
partial_short.__name__ = "partial_short"

# a builtin: inspect.signature() refuses it, the validator then assumes it is
# fine (documented fallback for C extensions)
r_builtin = max

CALLABLES = (r_builtin, r_kwargs, r_star, r_named, r_noargs, r_two, r_extra,
             r_posonly,
             r_nodefault, r_kw_short, r_kw_only, r_kwonly_req, r_kwonly_ok,
             m_ok, m_short, obj_ok, partial_ok, partial_short)
# Labels, independent of the validator: compatible with EVERY field / with NO
# field of any generated schema (three positional parameters is a rule the
# validator documents; no generated argument is called extra / extra2).
ALWAYS_VALID = (r_kwargs, r_star, r_kwonly_ok, m_ok, obj_ok, partial_ok,
                r_builtin)
ALWAYS_INVALID = (r_two, r_extra, r_kw_short, r_kw_only, r_kwonly_req,
                  m_short, partial_short)

_SHARED = {}


def shared_resolver(argname, with_default):
    """One callable per (argument name, flavour), meant to be registered on
    several fields that declare an argument of that name: compatible with the
    fields where the argument is required or defaulted, incompatible (when
    ``with_default`` is false) where it is optional without default."""
    key = (argname, with_default)
    if key not in _SHARED:
        ns = {}
        exec("def shared_%s_%d(root, ctx, info, %s%s, **kw):\n    return None"
             % (argname, int(with_default), argname,
                "=None" if with_default else ""), ns)
        _SHARED[key] = list(ns.values())[-1]
    return _SHARED[key]

ROUTES = ("register_resolver", "decorator", "decorator-star",
          "register_default_resolver", "register_subscription",
          "schema-attribute", "type-attribute", "merge_resolvers")


def _verdict(schema, via="validate"):
    try:
        if via == "validate":
            schema.validate()
        else:
            process_graphql_query(schema, "{ __typename }")
    except SchemaValidationError as err:
        return ("invalid", tuple(sorted(str(e) for e in err.errors)))
    except SchemaError as err:
        return ("invalid", (str(err),))
    return ("valid", ())


def _shuffled_sdl(parts, rnd):
    parts = list(parts)
    rnd.shuffle(parts)
    return "\n\n".join(parts) + "\n"


def _fresh(sdl, model):
    """A freshly built schema carrying exactly the model's assignment,
    applied through the registration API in a canonical order."""
    s = build_schema(sdl)
    for doc in model.get("exts", ()):
        # before any assignment: extend_schema validates its result, and the
        # reference must report the whole assignment at once
        from py_gql.sdl import extend_schema
        s = extend_schema(s, doc)
    for (t, f), fn in sorted(model["fields"].items()):
        if fn is not None:
            s.register_resolver(t, f, fn, allow_override=True)
    for t, fn in sorted(model["types"].items()):
        if fn is not None:
            s.register_default_resolver(t, fn, allow_override=True)
    for (t, f), fn in sorted(model["subs"].items()):
        if fn is not None:
            s.register_subscription(t, f, fn, allow_override=True)
    if model["global"] is not None:
        # no registration API exists for the schema-wide default: a fresh
        # schema never validated before is given the attribute directly
        s.default_resolver = model["global"]
    return s


def _fresh_verdict(sdl, model, via="validate"):
    try:
        return _verdict(_fresh(sdl, model), via)
    except SchemaValidationError as err:
        # extend_schema validates its result
        return ("invalid", tuple(sorted(str(e) for e in err.errors)))


def _label(model, targets=()):
    """Verdict known without consulting the validator, or None."""
    assigned = [fn for fn in list(model["fields"].values())
                + list(model["types"].values())
                + list(model["subs"].values()) + [model["global"]]
                if fn is not None]
    bad = [fn for fn in model["fields"].values() if fn in ALWAYS_INVALID]
    if bad:
        return "invalid", bad[0].__name__
    # a per-type default resolver serves every field of the type that has no
    # resolver of its own -- whatever the schema-wide default is (resolution
    # order: field, type, schema)
    for t, fn in sorted(model["types"].items()):
        if fn in ALWAYS_INVALID and any(
                tt == t and model["fields"].get((tt, ff)) is None
                for tt, ff in targets):
            return "invalid", "%s as default of %s" % (fn.__name__, t)
    if all(fn in ALWAYS_VALID for fn in assigned):
        return "valid", None
    return None, None


MUTANTS = (
    ("missing-interface-field",
     "interface Shape {\n  area: Float\n}\n\ntype Sq implements Shape {\n"
     "  side: Int\n}\n\nextend type %(q)s {\n  m_sq: Sq\n}"),
    ("output-in-input",
     "input BadIn {\n  f: Sq2\n}\n\ntype Sq2 {\n  side: Int\n}\n\n"
     "extend type %(q)s {\n  m_in(a: BadIn): Sq2\n}"),
    ("output-as-argument",
     "type Sq3 {\n  side(a: Sq4): Int\n}\n\ntype Sq4 {\n  side: Int\n}"
     "\n\nextend type %(q)s {\n  m_sq3: Sq3\n}"),
    ("empty-union",
     "union Nothing\n\nextend type %(q)s {\n  m_nothing: Nothing\n}"),
    ("non-covariant",
     "interface Named2 {\n  name: String!\n}\n\ntype Un implements Named2 "
     "{\n  name: String\n}\n\nextend type %(q)s {\n  m_un: Un\n}"),
    # three violations on ONE (object, interface) pair: a missing field first,
    # then a wrong type and a missing argument
    ("three-on-one-pair",
     "interface Shape3 {\n  aa: Int\n  bb: Int\n  cc(x: Int): Int\n}\n\n"
     "type Sq5 implements Shape3 {\n  bb: String\n  cc: Int\n}\n\n"
     "extend type %(q)s {\n  m_sq5: Sq5\n}"),
)
MUTANTS += (
    # the object's field adds a REQUIRED argument its interface field lacks;
    # an earlier interface field has an argument of that very name
    ("extra-required-arg",
     "interface Shape4 {\n  aa(x: Int): Int\n  bb: Int\n}\n\n"
     "type Sq6 implements Shape4 {\n  aa(x: Int): Int\n  bb(x: Int!): Int\n}"
     "\n\nextend type %(q)s {\n  m_sq6: Sq6\n}"),
    # covariance asked in BOTH directions for one pair of types: Foo9 may
    # stand where Node9 is expected, Node9 may not stand where Foo9 is
    ("covariance-both-directions",
     "interface Node9 {\n  self: Node9\n}\n\n"
     "type Foo9 implements Node9 {\n  self: Foo9\n}\n\n"
     "interface Holder9 {\n  item: Foo9\n}\n\n"
     "type Bar9 implements Holder9 {\n  item: Node9\n}\n\n"
     "extend type %(q)s {\n  m_foo9: Foo9\n  m_bar9: Bar9\n}"),
)
MUTANTS += (
    # a violation of the interface's OWN (an argument of output type) next to
    # an implementation violation on an object implementing it: both are
    # reported, whichever of the two types the walk meets first
    ("interface-own-and-implementation",
     "interface Node7 {\n  id: String\n  created(tz: Obj7): String\n}\n\n"
     "type Obj7 {\n  a: Int\n}\n\n"
     "type Item7 implements Node7 {\n  id: Int\n  created(tz: String): "
     "String\n}\n\n"
     "extend type %(q)s {\n  m_item7: Item7\n  m_obj7: Obj7\n}"),
)
MUTANTS += (
    # two violations on ONE field of one (object, interface) pair: the wrong
    # type and a missing argument
    ("two-on-one-field",
     "interface Shape8 {\n  ff(arg: Int): String\n}\n\n"
     "type Sq8 implements Shape8 {\n  ff: Int\n}\n\n"
     "extend type %(q)s {\n  m_sq8: Sq8\n}"),
)
MUTANTS += (
    # arguments are inputs, hence invariant: the implementation may not ask
    # for more than the interface promises (non-null where the interface says
    # nullable, at the top and inside a list) -- two violations
    ("narrowed-arguments",
     "interface Srch10 {\n  search(term: String, tags: [String]): String\n}"
     "\n\ntype Doc10 implements Srch10 {\n  search(term: String!, tags: "
     "[String!]): String\n}\n\nextend type %(q)s {\n  m_doc10: Doc10\n}"),
    # ... nor accept another (wider) type than the interface declares
    ("widened-argument",
     "interface Srch11 {\n  find(id: ID!, n: Int!): String\n}\n\n"
     "type Doc11 implements Srch11 {\n  find(id: ID, n: Float!): String\n}"
     "\n\nextend type %(q)s {\n  m_doc11: Doc11\n}"),
    # an input object holding an output type next to an interface type used
    # as input
    ("interface-in-input",
     "interface Face12 {\n  a: Int\n}\n\ntype Impl12 implements Face12 {\n"
     "  a: Int\n}\n\ninput In12 {\n  f: Face12\n  g: Int\n}\n\n"
     "extend type %(q)s {\n  m_in12(a: In12): Impl12\n}"),
    # a union listing a non-object member (an interface), and a scalar
    ("union-of-non-objects",
     "interface Face13 {\n  a: Int\n}\n\ntype Impl13 implements Face13 {\n"
     "  a: Int\n}\n\nunion U13 = Impl13 | Face13\n\n"
     "extend type %(q)s {\n  m_u13: U13\n}"),
)
# violations each labelled mutant injects ("reporting all violations together")
MUTANT_COUNTS = {"three-on-one-pair": 3, "interface-own-and-implementation": 2,
                 "two-on-one-field": 2, "narrowed-arguments": 2,
                 "widened-argument": 2}
# documents whose acceptance is a violation whatever else they hold (the
# older ones only feed the order / message-set comparison)
MUTANT_MUST_REJECT = tuple(m[0] for m in MUTANTS)


def run_machine(draws, state, tier):
    res = CaseResult()
    V = res.violations
    st = draws.stream("ops")
    # a schema of its own for every case (the per-invocation pool is only
    # needed by C12's restart table)
    from .pool import PoolEntry, gen_sdl, join_sdl
    sdl_seed = st.below(1 << 30, "sdl_seed")
    _parts = gen_sdl(sdl_seed, 0)
    entry = PoolEntry("sdl@%d" % sdl_seed, join_sdl(_parts), None, "sdl",
                      _parts)
    seq = []
    scenario = st.weighted((4, 1, 1), "scenario")
    if scenario == 2:
        # ---- supply-order independence for code-built schemas: the same
        # type objects handed to Schema(types=[...]) in several orders
        from py_gql.schema import (Field, Int, InterfaceType, Schema, String,
                                   UnionType)

        def build(perm, flavour):
            foo1 = ObjectType("Foo", [Field("a", Int)])
            bar = ObjectType("Bar", [Field("b", Int)])
            iface = InterfaceType("Named", [Field("name", String)])
            members = {"foo1": foo1, "bar": bar, "iface": iface}
            if "dup" in flavour:
                # a second, distinct object bearing an existing name, reached
                # through a field of another type
                foo2 = ObjectType("Foo", [Field("z", Int)])
                members["holder"] = ObjectType(
                    "Holder", [Field("foo", foo2), Field("n", Int)])
            if "noimpl" in flavour:
                members["impl"] = ObjectType(
                    "Impl", [Field("other", Int)], interfaces=[iface])
            if "sharedfield" in flavour:
                # code-first style: the SAME Field objects listed by several
                # types; only one of them has a (narrow) default resolver and
                # a duplicate of a shared field
                from py_gql.schema import Argument
                common = [Field("ident", Int, [Argument("a_int", Int)]),
                          Field("label", String)]
                members["sh1"] = ObjectType("Sh1", common + [Field("x", Int)])
                members["sh2"] = ObjectType(
                    "Sh2", common + [Field("label", Int)],
                    default_resolver=r_two)
                members["sh3"] = ObjectType("Sh3", common + [Field("y", Int)])
            if "ifaceown" in flavour:
                # a violation of the interface's own (an argument declared
                # twice) and an implementation violation on its object
                from py_gql.schema import Argument as _Arg
                node7 = InterfaceType("Node7", [
                    Field("id", String),
                    Field("created", String,
                          [_Arg("tz", String), _Arg("tz", String)])])
                members["node7"] = node7
                members["item7"] = ObjectType("Item7", [
                    Field("id", Int),
                    Field("created", String, [_Arg("tz", String)])],
                    interfaces=[node7])
            if "badnames" in flavour:
                # names no SDL document can spell (the lexer would refuse
                # them): only schema validation stands between them and the
                # clients -- three violations of "well-formed names"
                from py_gql.schema import Argument as _A9
                from py_gql.schema import InputField, InputObjectType
                in9 = InputObjectType("In9", [
                    InputField("ok", Int), InputField("bad-name", Int),
                    InputField("__reserved", Int)])
                members["in9"] = in9
                members["t9"] = ObjectType("T9", [
                    Field("f", Int, [_A9("arg", in9)]),
                    Field("trailing\n", Int)])
            if "union" in flavour:
                members["u"] = UnionType("AnyOf", [foo1, bar])
            baz = ObjectType("Baz", [Field("foo", foo1), Field("bar", bar)])
            members["baz"] = baz
            q = ObjectType("Query", [Field("x", Int), Field("baz", baz)])
            names = sorted(members)
            order = [members[names[i % len(names)]] for i in perm] + [
                members[n] for n in names]
            seen, types = set(), []
            for t in order:
                if id(t) not in seen:
                    seen.add(id(t))
                    types.append(t)
            try:
                Schema(q, types=types).validate()
            except SchemaValidationError as err:
                return ("invalid", tuple(sorted(str(e) for e in err.errors)))
            except SchemaError as err:
                return ("invalid", (str(err),))
            return ("valid", ())

        flavour = [f for f in ("dup", "noimpl", "union", "sharedfield",
                               "ifaceown", "badnames")
                   if st.chance(1, 2, "flavour_" + f)]
        verdicts = []
        for _k in range(4):
            perm = [st.below(8, "perm_i") for _ in range(6)]
            verdicts.append(build(perm, flavour))
        seq.append(("code-order", tuple(flavour)))
        if len({v[0] for v in verdicts}) > 1:
            V.append(Violation(P, "order_dependent_verdict", ("verdict",),
                               "code-built %r: %r" % (flavour, verdicts)))
        elif len(set(verdicts)) > 1:
            V.append(Violation(P, "order_dependent_verdict", ("messages",),
                               "code-built %r: %r" % (flavour, verdicts)))
        # ("dup": Schema() itself refuses two objects bearing one name, before
        # any validation -- nothing else is reported then)
        if "badnames" in flavour and "dup" not in flavour and not V:
            bad = [m for m in verdicts[0][1]
                   if "bad-name" in m or "__reserved" in m
                   or "trailing" in m]
            if verdicts[0][0] == "valid":
                V.append(Violation(
                    P, "labelled_verdict", ("accepted-invalid", "code-built"),
                    "a code-built schema with three ill-formed member names "
                    "was accepted"))
            elif len(bad) < 3:
                V.append(Violation(
                    P, "reported_together", ("fewer", "names"),
                    "three ill-formed names (input fields 'bad-name' and "
                    "'__reserved', field 'trailing\\n'), reported: %r" % (
                        bad,)))
        res.count("probe:code_built_order_cases")
    elif scenario == 1:
        # ---- supply-order independence on labelled invalid documents ------
        n = 1 + st.below(3, "n_mutants")
        chosen = []
        for _ in range(n):
            m = MUTANTS[st.below(len(MUTANTS), "mutant")]
            if m not in chosen:
                chosen.append(m)
        qname = "RootQ" if "type RootQ {" in entry.sdl else "Query"
        parts = list(entry.parts)
        for m in chosen:
            parts.extend((m[1] % {"q": qname}).split("\n\n"))
        sdl = "\n\n".join(parts) + "\n"
        verdicts = []
        for k in range(3):
            rnd = random.Random(st.below(1 << 16, "perm"))
            text = sdl if k == 0 else _shuffled_sdl(parts, rnd)
            try:
                build_schema(text)
                verdicts.append(("valid", ()))
            except SchemaValidationError as err:
                verdicts.append(("invalid",
                                 tuple(sorted(str(e) for e in err.errors))))
            except SchemaError as err:
                verdicts.append(("invalid", (str(err),)))
        seq.append(("order", tuple(m[0] for m in chosen)))
        if len({v[0] for v in verdicts}) > 1:
            V.append(Violation(P, "order_dependent_verdict", ("verdict",),
                               "mutants %r: %r" % ([m[0] for m in chosen],
                                                   [v[0] for v in verdicts])))
        elif len(set(verdicts)) > 1:
            V.append(Violation(P, "order_dependent_verdict", ("messages",),
                               "mutants %r: message sets differ: %r" % (
                                   [m[0] for m in chosen], verdicts)))
        elif verdicts[0][0] == "valid":
            # rule-by-rule rejection is not claimed here (pure function of
            # the schema); only counted -- except for the documents written
            # for a rule whose verdict has been seen to depend on ORDER
            # (of fields, of questions asked before)
            res.count("probe:labelled_invalid_document_accepted")
            must = [m[0] for m in chosen if m[0] in MUTANT_MUST_REJECT]
            if must:
                V.append(Violation(
                    P, "labelled_verdict", ("accepted-invalid", "document"),
                    "a document with the labelled violation(s) %r was "
                    "accepted under every definition order" % (must,)))
        else:
            res.count("probe:invalid_documents_rejected")
            want_n = sum(MUTANT_COUNTS.get(m[0], 1) for m in chosen)
            if len(verdicts[0][1]) < want_n:
                V.append(Violation(
                    P, "reported_together", ("fewer",),
                    "labelled violations %r make at least %d messages, %d "
                    "reported: %r" % ([m[0] for m in chosen], want_n,
                                      len(verdicts[0][1]), verdicts[0][1])))
            if len(verdicts[0][1]) >= 2:
                res.count("probe:multiple_violations_reported_together")
    else:
        # ---- history: reassignments between verdicts ------------------------
        sdl = entry.sdl
        live = build_schema(_shuffled_sdl(
            entry.parts, random.Random(st.below(1 << 16, "perm"))))
        targets = []
        for tname, t in sorted(live.types.items()):
            if isinstance(t, ObjectType) and not tname.startswith("__"):
                for f in t.fields:
                    targets.append((tname, f.name))
        objtypes = sorted({t for t, _ in targets})
        model = {"fields": {}, "types": {}, "subs": {}, "global": None,
                 "exts": []}
        n_ops = 2 + st.below(10 if tier == "quick" else 24, "n_ops")
        by_arg = {}
        for tname, fname in targets:
            for a in live.types[tname].field_map[fname].arguments:
                by_arg.setdefault(a.name, []).append((tname, fname))
        shared_args = sorted(a for a, fs in by_arg.items() if len(fs) >= 2)
        for step in range(n_ops):
            op = st.weighted((5, 3, 1, 2, 4 if shared_args else 0, 1, 2, 1,
                              1, 2), "op")
            # 0 reassign, 1 check(validate), 2 check(query), 3 shuffled
            # rebuild, 4 one callable registered on several fields, 5 derived
            # verdict, 6 read-only use, 7 rebase on an extension, 8 refused
            # registration
            if op == 9:
                # a registration on a CLONE of the live schema: the clone's
                # verdict is that of a fresh schema carrying the live
                # assignment plus this one, and the live schema -- validated
                # from scratch, no memo involved -- is what it was
                fn = CALLABLES[st.below(len(CALLABLES), "callable")]
                t, f = targets[st.below(len(targets), "target")]
                how = st.below(3, "fork_route")
                seq.append(("fork-reassign", fn.__name__, t, f, how))
                fork_model = {
                    "fields": dict(model["fields"]),
                    "types": dict(model["types"]), "subs": dict(model["subs"]),
                    "global": model["global"], "exts": list(model["exts"])}
                try:
                    if st.below(2, "fork_prevalidate"):
                        _verdict(live)
                        seq[-1] = seq[-1] + ("prevalidated",)
                    fork = live.clone()
                    if how == 0:
                        fork.register_resolver(t, f, fn, allow_override=True)
                        fork_model["fields"][(t, f)] = fn
                    elif how == 1:
                        fork.register_default_resolver(t, fn,
                                                       allow_override=True)
                        fork_model["types"][t] = fn
                    else:
                        fork.default_resolver = fn
                        fork_model["global"] = fn
                    got = _verdict(fork)
                    from py_gql.schema.validation import validate_schema
                    try:
                        validate_schema(live)
                        got_live = ("valid", ())
                    except SchemaValidationError as err:
                        got_live = ("invalid",
                                    tuple(sorted(str(e) for e in err.errors)))
                except Exception as err:  # noqa: B902
                    V.append(Violation(
                        P, "stale_verdict", ("fork-reassign", "raised"),
                        "step %d: reassigning on a clone of the live schema "
                        "raised %r" % (step, err)))
                    break
                want = _fresh_verdict(sdl, fork_model)
                want_live = _fresh_verdict(sdl, model)
                res.count("fork_reassignments")
                if got != want:
                    V.append(Violation(
                        P, "stale_verdict",
                        ("fork-reassign", "accepted-invalid"
                         if got[0] == "valid" and want[0] != "valid"
                         else "differs"),
                        "step %d: a clone of the live schema given %s on "
                        "%s.%s is %s %r, a fresh schema with that assignment "
                        "is %s %r" % (step, fn.__name__, t, f, got[0],
                                      got[1][:2], want[0], want[1][:2])))
                    break
                if got_live != want_live:
                    V.append(Violation(
                        P, "stale_verdict", ("fork-reassign", "source-changed"),
                        "step %d: after a registration on its CLONE the live "
                        "schema validates as %s %r, a fresh schema with the "
                        "live assignment as %s %r" % (
                            step, got_live[0], got_live[1][:2], want_live[0],
                            want_live[1][:2])))
                    break
                continue
            if op == 6:
                # activity that reads the schema and must leave the next
                # verdict alone
                use = ("diff-old", "diff-new", "print", "validate_schema-fn",
                       "clone", "introspect")[st.below(6, "use")]
                seq.append(("use", use))
                try:
                    if use.startswith("diff"):
                        from py_gql.schema.differ import diff_schema
                        other = build_schema(sdl)
                        pair = (live, other) if use == "diff-old" else (
                            other, live)
                        list(diff_schema(*pair))
                    elif use == "print":
                        live.to_string()
                    elif use == "validate_schema-fn":
                        from py_gql.schema.validation import validate_schema
                        validate_schema(live)
                    elif use == "clone":
                        live.clone()
                    else:
                        from py_gql.utilities import introspection_query
                        introspection_query()
                        sorted(live.types)
                        [live.get_possible_types(t) for t in
                         live.types.values()
                         if hasattr(t, "types") or
                         type(t).__name__ == "InterfaceType"]
                except SchemaError:
                    pass  # the live assignment may well be invalid
                except Exception as err:  # noqa: B902
                    V.append(Violation(
                        P, "stale_verdict", ("use:" + use, "raised"),
                        "step %d: %s of the live schema raised %r" % (
                            step, use, err)))
                    break
                res.count("use:" + use)
                continue
            if op == 7:
                from py_gql.sdl import extend_schema
                doc = "extend type %s { ext_c13_r%d: Int }" % (
                    live.query_type.name, step)
                seq.append(("rebase-extend", step))
                try:
                    live = extend_schema(live, doc)
                except SchemaValidationError:
                    seq[-1] = ("rebase-refused", step)
                else:
                    model["exts"].append(doc)
                res.count("rebase")
                continue
            if op == 8:
                # a registration refused for want of allow_override changes
                # nothing
                have = sorted(k for k, v in model["fields"].items()
                              if v is not None)
                if not have:
                    continue
                t, f = have[st.below(len(have), "refused_target")]
                fn = CALLABLES[st.below(len(CALLABLES), "callable")]
                if fn is model["fields"][(t, f)]:
                    continue
                seq.append(("refused-registration", fn.__name__, t, f))
                try:
                    live.register_resolver(t, f, fn)
                except ValueError:
                    res.count("probe:refused_registration")
                else:
                    model["fields"][(t, f)] = fn  # accepted after all
                continue
            if op == 4:
                aname = shared_args[st.below(len(shared_args), "shared_arg")]
                fn = shared_resolver(aname, bool(st.below(2, "shared_dflt")))
                seq.append(("register_resolver", fn.__name__, "*shared*",
                            aname))
                for t, f in by_arg[aname]:
                    live.register_resolver(t, f, fn, allow_override=True)
                    model["fields"][(t, f)] = fn
                res.count("reassign:shared-callable")
                continue
            if op == 0:
                route = ROUTES[st.below(len(ROUTES), "route")]
                fn = CALLABLES[st.below(len(CALLABLES), "callable")]
                t, f = targets[st.below(len(targets), "target")]
                seq.append((route, fn.__name__, t, f))
                try:
                    if route == "register_resolver":
                        live.register_resolver(t, f, fn, allow_override=True)
                        model["fields"][(t, f)] = fn
                    elif route == "decorator":
                        live.resolver("%s.%s" % (t, f),
                                      allow_override=True)(fn)
                        model["fields"][(t, f)] = fn
                    elif route == "decorator-star":
                        try:
                            live.resolver("%s.*" % t)(fn)
                        except ValueError:
                            if model["types"].get(t) is None:
                                raise
                            # refused (a default exists): not a reassignment
                            seq[-1] = ("refused:" + route,) + seq[-1][1:]
                        else:
                            model["types"][t] = fn
                    elif route == "register_default_resolver":
                        live.register_default_resolver(
                            t, fn, allow_override=True)
                        model["types"][t] = fn
                    elif route == "register_subscription":
                        live.register_subscription(t, f, fn,
                                                   allow_override=True)
                        model["subs"][(t, f)] = fn
                    elif route == "merge_resolvers":
                        from py_gql.schema.resolver_map import ResolverMap
                        rm = ResolverMap()
                        rm.register_resolver(t, f, fn)
                        live.merge_resolvers(rm, allow_override=True)
                        model["fields"][(t, f)] = fn
                    elif route == "schema-attribute":
                        live.default_resolver = fn
                        model["global"] = fn
                    else:
                        live.types[t].default_resolver = fn
                        model["types"][t] = fn
                except Exception as err:  # noqa: B902
                    V.append(Violation(
                        P, "stale_verdict", (route, "registration-raised"),
                        "%s raised %r" % (route, err)))
                    break
                res.count("reassign:" + route)
                continue
            if op == 5:
                # the verdict of a clone / of an extension of the live schema
                # (a new object: nothing memoised on the live schema applies)
                how = ("clone", "extend")[st.below(2, "derived")]
                seq.append(("derived-check", how))
                try:
                    if how == "clone":
                        got = _verdict(live.clone())
                    else:
                        from py_gql.sdl import extend_schema
                        q = live.query_type.name
                        doc = "extend type %s { ext_c13_%d: Int }" % (q, step)
                        got = _verdict(extend_schema(live, doc))
                except SchemaValidationError as err:
                    got = ("invalid",
                           tuple(sorted(str(e) for e in err.errors)))
                except Exception as err:  # noqa: B902
                    V.append(Violation(
                        P, "stale_verdict", ("derived-" + how, "raised"),
                        "step %d: %s of the live schema raised %r" % (
                            step, how, err)))
                    break
                try:
                    fresh = _fresh(sdl, model)
                    if how == "extend":
                        fresh = extend_schema(fresh, doc)
                    want = _verdict(fresh)
                except SchemaValidationError as err:
                    want = ("invalid",
                            tuple(sorted(str(e) for e in err.errors)))
                res.count("derived_checks")
                if got != want:
                    V.append(Violation(
                        P, "stale_verdict", ("derived-" + how,
                                             "accepted-invalid"
                                             if got[0] == "valid"
                                             else "differs"),
                        "step %d: the %s of the live schema is %s %r, a "
                        "fresh schema with the same assignment is %s %r" % (
                            step, how, got[0], got[1][:2], want[0],
                            want[1][:2])))
                    break
                continue
            if op in (1, 2):
                via = "validate" if op == 1 else "query"
                seq.append(("check", via))
                got = _verdict(live, via)
                want = _fresh_verdict(sdl, model)
                res.count("checks")
                lab, lab_fn = _label(model, targets)
                if lab is not None and want[0] != lab:
                    # live and fresh agree or not, the reference itself
                    # contradicts a verdict known by construction
                    V.append(Violation(
                        P, "labelled_verdict",
                        ("accepted-invalid" if lab == "invalid"
                         else "rejected-valid",),
                        "step %d: assignment labelled %s%s, a fresh schema "
                        "carrying it is %s %r" % (
                            step, lab,
                            " (%s on a field)" % lab_fn if lab_fn else "",
                            want[0], want[1][:2])))
                    break
                if want[0] == "invalid":
                    res.count("probe:checks_on_invalid_assignment")
                if got[0] != want[0]:
                    last = [s for s in seq if s[0] in ROUTES]
                    route = last[-1][0] if last else "none"
                    # attribute the stale verdict to the route(s) used since
                    # the previous check
                    since = []
                    for s in reversed(seq[:-1]):
                        if s[0] in ("check", "rebase-extend") or (
                                s[0] == "use" and s[1].startswith("diff")
                        ) or (s[0] == "fork-reassign"
                              and s[-1] == "prevalidated"):
                            # diff_schema validates both of its arguments
                            # (extend_schema validates its result: the new
                            # live schema starts from a computed verdict)
                            break
                        if s[0] in ROUTES:
                            since.append(s[0])
                    # A non-resetting route only yields a stale verdict when
                    # *every* reassignment since the previous check went
                    # through it; anything else is attributed to the first
                    # other route, so a known finding on one route never
                    # masks a memo bug on another.
                    others = [r for r in since if r != "type-attribute"]
                    route = others[-1] if others else (
                        since[0] if since else route)
                    V.append(Violation(
                        P, "stale_verdict",
                        (route, "accepted-invalid" if got[0] == "valid"
                         else "rejected-valid"),
                        "step %d: %s() says %s but a fresh schema with the "
                        "same assignment is %s %r; routes since the previous "
                        "check: %r" % (step, via, got[0], want[0],
                                       want[1][:2], since[::-1])))
                    break
                if got[1] != want[1]:
                    V.append(Violation(
                        P, "stale_verdict", ("messages", "differ"),
                        "step %d: %r != %r" % (step, got[1], want[1])))
                    break
                continue
            seq.append(("rebuild-shuffled",))
            rnd = random.Random(st.below(1 << 16, "perm"))
            a = _fresh_verdict(sdl, model)
            b = _fresh_verdict(_shuffled_sdl(entry.parts, rnd), model)
            res.count("shuffled_rebuilds")
            if a[0] != b[0]:
                V.append(Violation(P, "order_dependent_verdict", ("verdict",),
                                   "%r vs %r" % (a, b)))
                break
            if a[1] != b[1]:
                V.append(Violation(P, "order_dependent_verdict",
                                   ("messages",), "%r vs %r" % (a, b)))
                break
    kinds = {s[0] for s in seq}
    sig = hashlib.sha256(repr(seq).encode()).hexdigest()[:16]
    res.signatures.append((sig, len(seq) >= 3 and len(kinds) >= 2))
    res.count("runs")
    res.count("ops", len(seq))
    res.digest = hashlib.sha256(
        repr((seq, [(v.oracle, v.key) for v in V])).encode()).hexdigest()
    res.samples = {"schema": entry.name, "ops": [list(s) for s in seq]}
    return res


def evidence_meta():
    return {
        "rule": (
            "one case = one process lifetime running either a history of "
            "2..26 resolver (re)assignments through the 8 documented routes "
            "interleaved with validate() / process_graphql_query checks, "
            "read-only uses, refused registrations, rebases on an extension "
            "and shuffled rebuilds, or a labelled invalid document built under 3 "
            "definition orders; distinct = distinct operation sequence; "
            "non-trivial = length >= 3 with >= 2 operation kinds"),
        "real_vs_stub": {
            "real": ["py_gql Schema / ResolverMap registration API, "
                     "validate(), build_schema, process_graphql_query"],
            "stub": ["resolver callables (a table of signatures)"],
        },
        "assumptions": [
            "only the history clause and supply-order independence are "
            "decided; rule-by-rule accept/reject is a pure function of the "
            "schema and is not claimed",
            "the reference verdict is py-gql's own validator run on a "
            "freshly built schema carrying the same assignment; it is "
            "cross-checked against callables labelled compatible with every "
            "field / with no field (three positional parameters, required "
            "extra parameters)",
            "read-only uses of the live schema (diff_schema, print, clone, "
            "validate_schema) and refused registrations must leave the next "
            "verdict as the model predicts",
        ],
    }
