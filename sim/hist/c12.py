"""C12 history machine: printing is history-independent (restart
equivalence) and schema -> SDL -> schema round-trips on the pool."""
import hashlib
import json
import os
import subprocess
import sys

from py_gql import build_schema, graphql_blocking
from py_gql.lang import parse
from py_gql.schema.differ import diff_schema
from py_gql.sdl import ASTSchemaPrinter
from py_gql.schema.transforms import (
    CamelCaseSchemaTransform,
    transform_schema,
)
from py_gql.utilities import introspection_query

from ..execsim import CaseResult, HarnessError
from ..oracles import Violation
from . import struct as _struct

P = ("C12",)

OPTS = [
    (indent, desc, intro, custom)
    for indent in (4, 2, "\t")
    for desc in (True, False)
    for intro in (False, True)
    for custom in (False, True, ("tag",), ("deprecated", "tag"))
]


def opt_kwargs(opt):
    indent, desc, intro, custom = opt
    return dict(
        indent=indent, include_descriptions=desc,
        include_introspection=intro,
        include_custom_schema_directives=(
            list(custom) if isinstance(custom, tuple) else custom),
    )


def prepare(state, tier, base_seed):
    here = os.path.dirname(os.path.abspath(__file__))
    p = subprocess.run(
        [sys.executable, "-B", os.path.join(here, "zygote.py"),
         str(base_seed), str(12 if tier == "thorough" else 7)],
        capture_output=True, text=True, timeout=600)
    if p.returncode != 0:
        raise HarnessError("zygote failed: %s" % p.stderr[-2000:])
    data = json.loads(p.stdout)
    if data["sdl"] != [e.sdl for e in state["pool"]]:
        raise HarnessError("zygote built a different pool")
    state["table"] = data["table"]


def _intended_roots(sdl):
    import re
    m = re.search(r"^schema[^{]*\{([^}]*)\}", sdl, re.M)
    if m:
        roots = dict(re.findall(r"(query|mutation|subscription)\s*:\s*(\w+)",
                                m.group(1)))
        return (roots.get("query"), roots.get("mutation"),
                roots.get("subscription"))
    names = set(re.findall(r"^type (\w+)", sdl, re.M))
    return tuple(n if n in names else None
                 for n in ("Query", "Mutation", "Subscription"))


def _classify_diff(got, want):
    gl, wl = got.split("\n"), want.split("\n")
    for a, b in zip(gl, wl):
        if a != b:
            line = a + " " + b
            if "@deprecated" in line:
                return "deprecated-directive"
            if "@" in line:
                return "directive"
            if '"""' in line:
                return "description"
            return "other"
    return "length"


def run_machine(draws, state, tier):
    res = CaseResult()
    V = res.violations
    pool = state["pool"]
    table = state["table"]
    st = draws.stream("ops")
    n_ops = 3 + st.below(12 if tier == "quick" else 28, "n_ops")
    seq = []
    printers = {}
    parsed_ok = set()
    for step in range(n_ops):
        kind = st.weighted((6, 2, 3), "op")  # print, roundtrip, activity
        si = st.below(len(pool), "schema")
        entry = pool[si]
        if kind == 2:
            act = st.below(5, "activity")
            seq.append(("activity", act, si))
            try:
                if act == 0:
                    build_schema(pool[st.below(len(pool), "other")].sdl
                                 or "type Query { a: Int }")
                elif act == 1:
                    graphql_blocking(entry.schema, introspection_query())
                elif act == 2:
                    transform_schema(entry.schema, CamelCaseSchemaTransform())
                elif act == 3:
                    other = pool[st.below(len(pool), "other")]
                    list(diff_schema(entry.schema, other.schema))
                else:
                    entry.schema.validate()
            except Exception as err:  # noqa: B902 - unrelated activity
                res.count("activity_raised:%s" % type(err).__name__)
            continue
        oi = st.below(len(OPTS), "opts")
        opt = OPTS[oi]
        if kind == 1 and opt[2]:
            # round-trip only without introspection types in the text
            oi = oi - OPTS.index(opt) + OPTS.index((opt[0], opt[1], False,
                                                    opt[3]))
            opt = OPTS[oi]
        seq.append(("print" if kind == 0 else "roundtrip", si, oi))
        want = table["%d:%d" % (si, oi)]
        try:
            if st.below(2, "printer_object"):
                # one ASTSchemaPrinter object reused for several schemas
                pr = printers.get(oi)
                if pr is None:
                    pr = printers[oi] = ASTSchemaPrinter(**opt_kwargs(opt))
                res.count("probe:printer_object_reused")
                text = pr(entry.schema)
            else:
                text = entry.schema.to_string(**opt_kwargs(opt))
            got = {"text": text}
        except Exception as err:  # noqa: B902
            got = {"error": type(err).__name__}
        res.count("prints")
        ckind = "list" if isinstance(opt[3], tuple) else str(opt[3])
        if got != want:
            if "text" in got and "text" in want:
                what = _classify_diff(got["text"], want["text"])
            else:
                what = "error-vs-text"
            V.append(Violation(
                P, "restart_equivalence", ("custom=" + ckind, what),
                "step %d: %s of pool[%d] with %r differs from what a fresh "
                "process prints (after %d earlier operations)"
                % (step, seq[-1][0], si, opt_kwargs(opt), step)))
            break
        if "text" not in got:
            continue
        text = got["text"]
        key = (si, oi)
        if key not in parsed_ok:
            try:
                parse(text, allow_type_system=True)
                parsed_ok.add(key)
            except Exception as err:  # noqa: B902
                V.append(Violation(
                    P, "roundtrip", ("text", "rejected-by-parser"),
                    "pool[%d] %r: %r" % (si, opt_kwargs(opt), err)))
                break
        if kind == 1:
            res.count("roundtrips")
            try:
                rebuilt = build_schema(text)
            except Exception as err:  # noqa: B902
                V.append(Violation(
                    P, "roundtrip", ("text", "rejected-by-build_schema"),
                    "pool[%d] %r: %r" % (si, opt_kwargs(opt), err)))
                break
            if entry.kind == "sdl":
                # the root types the source text asks for, read off the text
                # itself: the schema block if there is one, otherwise the
                # types called exactly Query / Mutation / Subscription
                want = _intended_roots(entry.sdl)
                for which, sch in (("built", entry.schema),
                                   ("rebuilt", rebuilt)):
                    got = tuple(t.name if t is not None else None for t in (
                        sch.query_type, sch.mutation_type,
                        sch.subscription_type))
                    if got != want:
                        V.append(Violation(
                            P, "roundtrip", ("roots", "intended"),
                            "pool[%d]: the text names the roots %r, the %s "
                            "schema has %r" % (si, want, which, got)))
                        break
                if V:
                    break
            a = _struct.describe(entry.schema, descriptions=opt[1])
            b = _struct.describe(rebuilt, descriptions=opt[1])
            d = _struct.diff(a, b)
            if d:
                path = d[0]
                elem = str(path[0]) if path else "?"
                attr = [p for p in path if isinstance(p, str)][-1] \
                    if path else "?"
                V.append(Violation(
                    P, "roundtrip", (elem, attr),
                    "pool[%d] %r: %r: %r != %r" % (si, opt_kwargs(opt),
                                                   d[0], d[1], d[2])))
                break
            try:
                again = rebuilt.to_string(**opt_kwargs(opt))
            except Exception as err:  # noqa: B902
                again = "<raised %r>" % (err,)
            if again != text:
                V.append(Violation(
                    P, "roundtrip", ("reprint", _classify_diff(again, text)),
                    "pool[%d] %r: re-printing the rebuilt schema differs"
                    % (si, opt_kwargs(opt))))
                break
    kinds = {s[0] for s in seq}
    sig = hashlib.sha256(repr(seq).encode()).hexdigest()[:16]
    res.signatures.append((sig, len(seq) >= 3 and len(kinds) >= 2))
    res.count("runs")
    res.count("ops", len(seq))
    res.count("fired:F10_restart_oracle_lookups", res.stats.get("prints", 0))
    res.digest = hashlib.sha256(
        repr((seq, [(v.oracle, v.key) for v in V])).encode()).hexdigest()
    res.samples = {"ops": [list(s) for s in seq],
                   "options": "index into OPTS = (indent, descriptions, "
                              "introspection, custom directives)"}
    return res


def evidence_meta():
    return {
        "rule": (
            "one case = one process lifetime (fresh fork) running 3..30 "
            "print / roundtrip / unrelated-activity operations over a pool "
            "of 9 schemas x 48 option sets; every print is compared with the "
            "text a pristine process produces for the same (schema, options); "
            "distinct = distinct operation sequence; non-trivial = length >= 3 "
            "with >= 2 operation kinds"),
        "real_vs_stub": {
            "real": ["py_gql printer, parser, build_schema, transforms, "
                     "differ, introspection (all from the working tree)",
                     "process restart: pristine forked interpreter images"],
            "stub": ["none (no scheduler or clock is involved in printing)"],
        },
        "assumptions": [
            "round-trip clause decided only for the pool's schemas",
            "descriptions limited to lines the printer does not re-wrap",
        ],
    }
