"""histsim engine: seeded operation-sequence machines over state that
outlives a call (C12, C13, C14).

Every case runs in a freshly forked child of the (printer-pristine) check
process, so that a case is one complete "process lifetime": its result cannot
depend on which cases the worker ran before, and a replay in a fresh
interpreter starts from the same state.
"""
from ..execsim import CaseResult, HarnessError

_STATE = {}


def prepare(prop, tier, base_seed):
    if _STATE.get("prepared") == (prop, base_seed, tier):
        return
    from . import pool as _pool
    _STATE["pool"] = _pool.build_pool(
        base_seed, n_sdl=12 if tier == "thorough" else 7)
    if prop == "C12":
        from . import c12
        c12.prepare(_STATE, tier, base_seed)
    _STATE["prepared"] = (prop, base_seed, tier)


def _machine(prop):
    if prop == "C12":
        from . import c12
        return c12
    if prop == "C13":
        from . import c13
        return c13
    if prop == "C14":
        from . import c14
        return c14
    raise AssertionError(prop)


def run_case(draws, prop, tier="quick"):
    if "pool" not in _STATE:
        raise HarnessError("hist engine not prepared")
    mod = _machine(prop)
    from ..forkcase import ChildFailure, run_in_child
    try:
        return run_in_child(lambda: mod.run_machine(draws, _STATE, tier),
                            draws, timeout=120.0)
    except ChildFailure as err:
        raise HarnessError("hist machine failed:\n%s" % err)


def evidence_meta(prop):
    return _machine(prop).evidence_meta()
