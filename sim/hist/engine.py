"""histsim engine: seeded operation-sequence machines over state that
outlives a call (C12, C13, C14).

Every case runs in a freshly forked child of the (printer-pristine) check
process, so that a case is one complete "process lifetime": its result cannot
depend on which cases the worker ran before, and a replay in a fresh
interpreter starts from the same state.
"""
import os
import pickle
import select
import signal
import sys

from ..execsim import CaseResult, HarnessError

_STATE = {}


def prepare(prop, tier, base_seed):
    if _STATE.get("prepared") == (prop, base_seed, tier):
        return
    from . import pool as _pool
    _STATE["pool"] = _pool.build_pool(
        base_seed, n_sdl=12 if tier == "thorough" else 7)
    if prop == "C12":
        from . import c12
        c12.prepare(_STATE, tier, base_seed)
    _STATE["prepared"] = (prop, base_seed, tier)


def _machine(prop):
    if prop == "C12":
        from . import c12
        return c12
    if prop == "C13":
        from . import c13
        return c13
    if prop == "C14":
        from . import c14
        return c14
    raise AssertionError(prop)


def run_case(draws, prop, tier="quick"):
    if "pool" not in _STATE:
        raise HarnessError("hist engine not prepared")
    mod = _machine(prop)
    r, w = os.pipe()
    pid = os.fork()
    if pid == 0:
        code = 0
        try:
            os.close(r)
            try:
                res = mod.run_machine(draws, _STATE, tier)
                payload = ("ok", res, draws.recorded())
            except BaseException as err:  # noqa: B902
                import traceback
                payload = ("error", "".join(traceback.format_exception(err)),
                           None)
            with os.fdopen(w, "wb") as f:
                pickle.dump(payload, f, protocol=pickle.HIGHEST_PROTOCOL)
        except BaseException:  # noqa: B902
            code = 1
        finally:
            sys.stdout.flush()
            sys.stderr.flush()
            os._exit(code)
    os.close(w)
    chunks = []
    timeout = 120.0
    try:
        while True:
            ready, _, _ = select.select([r], [], [], timeout)
            if not ready:
                os.kill(pid, signal.SIGKILL)
                os.waitpid(pid, 0)
                raise HarnessError("hist case child timed out")
            b = os.read(r, 1 << 16)
            if not b:
                break
            chunks.append(b)
    finally:
        os.close(r)
    os.waitpid(pid, 0)
    if not chunks:
        raise HarnessError("hist case child produced no result")
    status, res, recorded = pickle.loads(b"".join(chunks))
    if status != "ok":
        raise HarnessError("hist machine failed:\n%s" % res)
    draws.adopt(recorded)
    return res


def evidence_meta(prop):
    return _machine(prop).evidence_meta()
