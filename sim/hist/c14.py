"""C14 history machine: extend / clone / transform keep schemas closed and
intact, and leave the source untouched.

Live set starts with one decorated source schema (resolvers, type default
resolvers, resolve_type callables, a subscription resolver, a schema-wide
default resolver).  Operations are applied to any live schema, deliberately
re-applying operations to the same source.  After every operation, on every
live schema: closure, removal, preservation, source-untouched.
"""
import hashlib
import json

from py_gql import build_schema, graphql_blocking
from py_gql.exc import GraphQLError, SDLError
from py_gql.execution import default_resolver as _default_resolver
from py_gql.schema import (
    InputObjectType,
    InterfaceType,
    ListType,
    NonNullType,
    ObjectType,
    ScalarType,
    UnionType,
)
from py_gql.schema.transforms import (
    CamelCaseSchemaTransform,
    VisibilitySchemaTransform,
    transform_schema,
)
from py_gql.exc import SchemaValidationError
from py_gql.sdl import extend_schema
from py_gql.sdl.schema_directives import (
    SchemaDirective,
    apply_schema_directives,
)
from py_gql.utilities import introspection_query

from ..execsim import CaseResult
from ..oracles import Violation
from . import struct as _struct
from .pool import code_schema, join_sdl

P = ("C14",)


def _named(t):
    while isinstance(t, (ListType, NonNullType)):
        t = t.type
    return t


def default_key_problem(schema):
    """Default values (of arguments, directive arguments, input fields) are
    what resolvers receive and what introspection prints: an input-object
    default may only name fields its type (still) has -- under the GraphQL
    or the Python name."""
    def walk(t, value, where):
        t = t.type if isinstance(t, NonNullType) else t
        if value is None:
            return None
        if isinstance(t, ListType):
            if isinstance(value, (list, tuple)):
                for v in value:
                    r = walk(t.type, v, where)
                    if r:
                        return r
                return None
            return walk(t.type, value, where)
        if isinstance(t, InputObjectType) and isinstance(value, dict):
            known = {}
            for f in t.fields:
                known[f.name] = f
                known[f.python_name] = f
            for k, v in value.items():
                if k not in known:
                    return "%s: the default names %r, which input type %s " \
                        "does not have (fields: %r)" % (
                            where, k, t.name, sorted(f.name for f in t.fields))
                r = walk(known[k].type, v, where)
                if r:
                    return r
        return None

    def args(where, arguments):
        for a in arguments:
            if a.has_default_value:
                r = walk(a.type, a.default_value, "%s(%s)" % (where, a.name))
                if r:
                    return r
        return None

    for name, t in sorted(schema.types.items()):
        if name.startswith("__"):
            continue
        if isinstance(t, (ObjectType, InterfaceType)):
            for f in t.fields:
                r = args("%s.%s" % (name, f.name), f.arguments)
                if r:
                    return r
        if isinstance(t, InputObjectType):
            r = args(name, t.fields)
            if r:
                return r
    for dname, d in sorted(schema.directives.items()):
        r = args("@" + dname, d.arguments)
        if r:
            return r
    return None


def _abstract_use_problem(schema):
    """The code-built pool schemas resolve ``Thing`` / ``AB`` with functions
    returning type objects: as long as a live schema still has those types
    and root fields, values are resolved through them as on the source."""
    q = schema.query_type
    if q is None or not all(n in schema.types for n in ("Thing", "AB", "A",
                                                        "B")):
        return None
    rt = schema.types["Thing"].resolve_type
    if getattr(rt, "__name__", "") != "rt_objects" or \
            schema.types["AB"].resolve_type is not rt:
        return None
    if "thing" not in q.field_map or "ab" not in q.field_map or any(
            "name" not in schema.types[n].field_map for n in ("A", "B",
                                                               "Thing")):
        return None
    root = {"thing": {"name": "n"},
            "ab": [{"name": "x"}, {"name": "y", "peer": None}]}
    doc = "{ thing { __typename name } ab { __typename } }"
    want = {"thing": {"__typename": "A", "name": "n"},
            "ab": [{"__typename": "A"}, {"__typename": "B"}]}
    try:
        r = graphql_blocking(schema, doc, root=root)
    except Exception as err:  # noqa: B902
        return "values of abstract type can no longer be resolved: %r" % (
            err,)
    if r.errors or json.loads(json.dumps(r.data)) != want:
        return "abstract values resolved to %r %r, expected %r" % (
            r.data, r.errors, want)
    return None


# ---------------------------------------------------------------------------
# decorations
# ---------------------------------------------------------------------------
def _mk(tag):
    def fn(root, ctx, info, **kw):
        # behave like the library's default resolver so that a schema-wide
        # marker does not break introspection fields
        return _default_resolver(root, ctx, info, **kw)

    fn.__name__ = "r_" + tag
    fn.tag = tag
    return fn


def decorate(schema, st):
    """Attach resolvers etc. through the documented API; returns nothing --
    expectations are read back from the source by ``attributes()`` *before*
    any operation runs."""
    for tname, t in sorted(schema.types.items()):
        if tname.startswith("__"):
            continue
        if isinstance(t, ObjectType):
            for f in t.fields:
                if st.chance(1, 2, "res"):
                    schema.register_resolver(tname, f.name,
                                             _mk("%s.%s" % (tname, f.name)))
            if st.chance(1, 3, "tdef"):
                schema.register_default_resolver(tname, _mk("%s.*" % tname))
        if isinstance(t, (InterfaceType, UnionType)):
            if st.chance(1, 2, "rt") and t.resolve_type is None:
                t.resolve_type = _mk("rt:" + tname)
    if schema.subscription_type is not None:
        for f in schema.subscription_type.fields:
            schema.register_subscription(
                schema.subscription_type.name, f.name,
                _mk("sub:" + f.name))
    if st.chance(1, 2, "gdef"):
        schema.default_resolver = _mk("*")


def _unmarked(d):
    if d is not None and d.endswith(" [tagged]"):
        d = d[:-len(" [tagged]")]
    return d or None


def attributes(schema):
    """{element key: {attribute: value}} for preservation checks.  Callables
    are recorded by identity."""
    out = {}
    for tname, t in schema.types.items():
        if tname.startswith("__") or tname in _struct.SPECIFIED:
            continue
        a = {"description": t.description}
        if isinstance(t, ObjectType):
            a["default_resolver"] = t.default_resolver
        if isinstance(t, (InterfaceType, UnionType)):
            a["resolve_type"] = t.resolve_type
        if isinstance(t, ScalarType):
            # the Python side of a custom scalar (callables, by identity)
            a["serialize"] = getattr(t, "_serialize", None)
            a["parse"] = getattr(t, "_parse", None)
            a["parse_literal"] = getattr(t, "_parse_literal", None)
        out[("type", tname)] = a
        if isinstance(t, (ObjectType, InterfaceType)):
            for f in t.fields:
                out[("field", tname, f.name)] = {
                    "resolver": f.resolver,
                    "subscription_resolver": f.subscription_resolver,
                    "python_name": f.python_name,
                    "description": f.description,
                    "deprecated": f.deprecated,
                    "deprecation_reason": f.deprecation_reason,
                    "type": _struct.type_str(f.type),
                }
                for arg in f.arguments:
                    out[("arg", tname, f.name, arg.name)] = {
                        "python_name": arg.python_name,
                        "description": arg.description,
                        "default": repr(arg.default_value)
                        if arg.has_default_value else "<none>",
                        "type": _struct.type_str(arg.type),
                    }
        if isinstance(t, InputObjectType):
            for f in t.fields:
                out[("input_field", tname, f.name)] = {
                    "python_name": f.python_name,
                    "description": f.description,
                    "default": repr(f.default_value)
                    if f.has_default_value else "<none>",
                    "type": _struct.type_str(f.type),
                }
        if hasattr(t, "values") and not isinstance(t, InputObjectType):
            for v in t.values:
                out[("enum_value", tname, v.name)] = {
                    # (the mark @tag's implementation leaves on the values
                    # it is applied to is that operation's own doing)
                    "description": _unmarked(v.description),
                    "deprecated": v.deprecated,
                    "deprecation_reason": v.deprecation_reason,
                    "value": repr(v.value),
                }
    out[("schema",)] = {"default_resolver": schema.default_resolver}
    return out


def gql_names(schema):
    """Names visible through traversal: types, fields, args, input fields,
    directives."""
    names = set()
    for tname, t in schema.types.items():
        names.add(("type", tname))
        if isinstance(t, (ObjectType, InterfaceType)):
            for f in t.fields:
                names.add(("field", tname, f.name))
                for a in f.arguments:
                    names.add(("arg", tname, f.name, a.name))
        if isinstance(t, InputObjectType):
            for f in t.fields:
                names.add(("input_field", tname, f.name))
    for d in schema.directives:
        names.add(("directive", d))
    return names


def collateral_of_type(schema, tname):
    """Elements that go away with a hidden type: members typed with it and
    their arguments, arguments and input fields of that type, its own
    members."""
    gone = set()
    for name, t in schema.types.items():
        if isinstance(t, (ObjectType, InterfaceType)):
            for f in t.fields:
                if name == tname or _named(f.type).name == tname:
                    gone.add(("field", name, f.name))
                    for a in f.arguments:
                        gone.add(("arg", name, f.name, a.name))
                else:
                    for a in f.arguments:
                        if _named(a.type).name == tname:
                            gone.add(("arg", name, f.name, a.name))
        if isinstance(t, InputObjectType):
            for f in t.fields:
                if name == tname or _named(f.type).name == tname:
                    gone.add(("input_field", name, f.name))
    return gone


def introspected_names(schema):
    r = graphql_blocking(schema, introspection_query())
    if r.errors:
        raise GraphQLError("introspection failed: %r" % (r.errors,))
    names = set()
    s = r.data["__schema"]
    for t in s["types"]:
        names.add(("type", t["name"]))
        for f in t.get("fields") or []:
            names.add(("field", t["name"], f["name"]))
            for a in f.get("args") or []:
                names.add(("arg", t["name"], f["name"], a["name"]))
        for f in t.get("inputFields") or []:
            names.add(("input_field", t["name"], f["name"]))
    for d in s["directives"]:
        names.add(("directive", d["name"]))
    return names


# ---------------------------------------------------------------------------
# invariants
# ---------------------------------------------------------------------------
def closure_problem(schema):
    """Return (reference kind, detail) for the first reference that is not
    the registered object, or None."""
    reg = schema.types

    def check(t, kind, where):
        n = _named(t)
        if reg.get(n.name) is not n:
            return (kind, "%s refers to %s %r which is %s" % (
                where, type(n).__name__, n.name,
                "not registered" if n.name not in reg
                else "a different object than schema.types[%r]" % n.name))
        return None

    for name, t in reg.items():
        if t.name != name:
            return ("registry-key", "%r registered under %r" % (t.name, name))
        if isinstance(t, ObjectType):
            for i in t.interfaces:
                p = check(i, "interface", "%s implements" % name)
                if p:
                    return p
        if isinstance(t, (ObjectType, InterfaceType)):
            for f in t.fields:
                p = check(f.type, "field-type", "%s.%s" % (name, f.name))
                if p:
                    return p
                for a in f.arguments:
                    p = check(a.type, "argument-type",
                              "%s.%s(%s)" % (name, f.name, a.name))
                    if p:
                        return p
        if isinstance(t, UnionType):
            for m in t.types:
                p = check(m, "union-member", "union %s" % name)
                if p:
                    return p
        if isinstance(t, InputObjectType):
            for f in t.fields:
                p = check(f.type, "input-field-type",
                          "%s.%s" % (name, f.name))
                if p:
                    return p
    for kind, root in (("query", schema.query_type),
                       ("mutation", schema.mutation_type),
                       ("subscription", schema.subscription_type)):
        if root is not None and reg.get(root.name) is not root:
            return ("root", "%s root is not schema.types[%r]" % (kind,
                                                                root.name))
    for dname, d in schema.directives.items():
        for a in d.arguments:
            p = check(a.type, "directive-argument-type",
                      "@%s(%s)" % (dname, a.name))
            if p:
                return p

    # by-name indexes of members (what validation, diffing and coercion look
    # members up in) list exactly the members, as the very same objects
    def index(where, mapping, members):
        want_ = {m.name: m for m in members}
        if set(mapping) != set(want_):
            return ("member-index", "%s: index lists %r, members are %r" % (
                where, sorted(mapping), sorted(want_)))
        for k, m in want_.items():
            if mapping[k] is not m:
                return ("member-index", "%s: index entry %r is another "
                        "object than the member" % (where, k))
        return None

    for dname, d in schema.directives.items():
        p = index("@%s arguments" % dname, d.argument_map, d.arguments)
        if p:
            return p
    for name, t in reg.items():
        if isinstance(t, (ObjectType, InterfaceType, InputObjectType)):
            p = index("%s fields" % name, t.field_map, t.fields)
            if p:
                return p
        if isinstance(t, (ObjectType, InterfaceType)):
            for f in t.fields:
                p = index("%s.%s arguments" % (name, f.name),
                          f.argument_map, f.arguments)
                if p:
                    return p
    # derived indexes agree with the registry
    want = {}
    for name, t in reg.items():
        if isinstance(t, ObjectType):
            for i in t.interfaces:
                want.setdefault(i.name, []).append(t)
    for iname, impls in schema.implementations.items():
        if not impls and iname not in want:
            continue
        if sorted(id(x) for x in impls) != sorted(
                id(x) for x in want.get(iname, [])):
            return ("implementations",
                    "implementations[%r] = %r, registry says %r" % (
                        iname, [x.name for x in impls],
                        [x.name for x in want.get(iname, [])]))
    for iname in want:
        if iname not in schema.implementations:
            return ("implementations", "no entry for %r" % iname)
    for name, t in reg.items():
        if isinstance(t, (InterfaceType, UnionType)):
            for pt in schema.get_possible_types(t):
                if reg.get(pt.name) is not pt:
                    return ("possible-types",
                            "possible type %r of %r is not registered object"
                            % (pt.name, name))
    return None


def camel(name):
    parts = name.strip("_").split("_")
    lead = name[: len(name) - len(name.lstrip("_"))]
    trail = name[len(name.rstrip("_")):] if name.strip("_") else ""
    body = parts[0] + "".join(p[:1].upper() + p[1:] for p in parts[1:])
    return lead + body + trail


class Hide(VisibilitySchemaTransform):
    def __init__(self, what):
        self.what = what  # ("type", T) | ("field", T, f) | ...

    def is_type_visible(self, name):
        return self.what != ("type", name)

    def is_directive_visible(self, name):
        return self.what != ("directive", name)

    def is_field_visible(self, typename, fieldname):
        return self.what != ("field", typename, fieldname)

    def is_input_field_visible(self, typename, fieldname):
        return self.what != ("input_field", typename, fieldname)


TAG_MARK = " [tagged]"


class TagDirective(SchemaDirective):
    """@tag: implemented, changes nothing the checks compare -- on an enum
    value it leaves a mark on the object it is handed, IN PLACE, the way the
    library's own transforms edit the members they are handed (the schema it
    is applied to is a clone: the mark must not show on any other schema)."""
    definition = "tag"

    def on_enum_value(self, enum_value):
        d = enum_value.description or ""
        if not d.endswith(TAG_MARK):
            enum_value.description = d + TAG_MARK
        return enum_value


class FlagDirective(SchemaDirective):
    """@flag on a field removes that field (except interface keys)."""
    definition = "flag"

    def on_field(self, field):
        return None if field.name != "id" else field

    def on_object(self, object_type):
        # applied to a type it changes nothing (the inherited visitor method
        # would walk the members with on_field above)
        return object_type


def flagged_fields(schema):
    out = set()
    for tname, t in schema.types.items():
        if isinstance(t, (ObjectType, InterfaceType)) \
                and not tname.startswith("__"):
            for f in t.fields:
                if f.node is not None and f.name != "id" and any(
                        d.name.value == "flag" for d in f.node.directives):
                    out.add(("field", tname, f.name))
    return out


EXT_KINDS = ("object-field", "enum-value", "input-field", "union-member",
             "new-type", "interface-field-all", "documented-field",
             "new-implementation", "directive-definition", "nothing-new")


def gen_extension(st, schema, counter):
    """An extension document for ``schema`` and the set of element keys it
    targets (type names whose *membership* changes)."""
    kind = EXT_KINDS[st.below(len(EXT_KINDS), "ext_kind")]
    objs = sorted(n for n, t in schema.types.items()
                  if isinstance(t, ObjectType) and not n.startswith("__"))
    k = counter[0]
    counter[0] += 1
    if kind == "object-field" and objs:
        t = objs[st.below(len(objs), "ext_t")]
        return kind, "extend type %s {\n  ext_%d(a_n: Int = 1): Int\n}" % (
            t, k)
    if kind == "documented-field" and objs:
        t = objs[st.below(len(objs), "ext_t")]
        return kind, (
            'extend type %s {\n  """added by extension %d"""\n'
            '  ext_%d(a_s: String = "x"): String @deprecated(reason: "ext")'
            '\n}' % (t, k, k))
    if kind == "new-implementation":
        ifs = sorted(n for n, t in schema.types.items()
                     if isinstance(t, InterfaceType))
        if ifs:
            i = ifs[st.below(len(ifs), "ext_t")]
            fields = "\n".join(
                "  %s: %s" % (f.name, _struct.type_str(f.type))
                for f in schema.types[i].fields if not f.arguments)
            if fields and all(not f.arguments
                              for f in schema.types[i].fields):
                q = schema.query_type.name
                return kind, (
                    "type ExtImpl%d implements %s {\n%s\n}\n\n"
                    "extend type %s {\n  ext_impl_%d: ExtImpl%d\n}"
                    % (k, i, fields, q, k, k))
    if kind == "directive-definition":
        return kind, "directive @ext_%d(n: Int = %d) on FIELD_DEFINITION" % (
            k, k)
    if kind == "nothing-new":
        # documents that end up adding nothing in non-strict mode: a
        # definition the schema already has, an extension of an unknown type
        customs = sorted(n for n in schema.directives
                         if n not in _struct.SPECIFIED_DIRECTIVES)
        docs = ["extend type NoSuchType%d {\n  a: Int\n}" % k]
        if customs:
            d = customs[st.below(len(customs), "ext_dir")]
            docs.append("directive @%s on FIELD_DEFINITION" % d)
            docs.append(docs[1] + "\n\n" + docs[0])
        if objs:
            t = objs[st.below(len(objs), "ext_t")]
            docs.append("type %s {\n  a: Int\n}" % t)
        return kind, docs[st.below(len(docs), "ext_nothing")]
    if kind == "enum-value":
        enums = sorted(n for n, t in schema.types.items()
                       if hasattr(t, "values") and not n.startswith("__")
                       and not isinstance(t, InputObjectType))
        if enums:
            t = enums[st.below(len(enums), "ext_t")]
            return kind, "extend enum %s {\n  EXT_%d\n}" % (t, k)
    if kind == "input-field":
        ins = sorted(n for n, t in schema.types.items()
                     if isinstance(t, InputObjectType))
        if ins:
            t = ins[st.below(len(ins), "ext_t")]
            # the new field's type: a built-in, or an enum / custom scalar /
            # input object the schema already has
            known = sorted(
                n for n, x in schema.types.items()
                if not n.startswith("__") and n not in _struct.SPECIFIED
                and (isinstance(x, (InputObjectType, ScalarType))
                     or (hasattr(x, "values")
                         and not isinstance(x, InputObjectType))))
            # (not one that would close a cycle of input objects: the builder
            # recurses without end on self-referencing input types -- a C11
            # matter, DESIGN 8.5)
            def reaches(a, seen=()):
                x = schema.types.get(a)
                if a == t:
                    return True
                if not isinstance(x, InputObjectType) or a in seen:
                    return False
                return any(reaches(_named(f.type).name, seen + (a,))
                           for f in x.fields)
            known = [n for n in known if not reaches(n)]
            ft = (["Int"] + known)[st.below(1 + len(known), "ext_ft")]
            return kind, "extend input %s {\n  ext_%d: %s\n}" % (t, k, ft)
    if kind == "union-member":
        unions = sorted(n for n, t in schema.types.items()
                        if isinstance(t, UnionType))
        if unions:
            u = unions[st.below(len(unions), "ext_t")]
            return kind, ("type ExtMember%d {\n  a: Int\n}\n\n"
                          "extend union %s = ExtMember%d" % (k, u, k))
    if kind == "interface-field-all":
        ifs = sorted(n for n, t in schema.types.items()
                     if isinstance(t, InterfaceType))
        if ifs:
            i = ifs[st.below(len(ifs), "ext_t")]
            impls = [o for o in objs
                     if any(x.name == i for x in schema.types[o].interfaces)]
            doc = ["extend interface %s {\n  ext_%d: Int\n}" % (i, k)]
            for o in impls:
                doc.append("extend type %s {\n  ext_%d: Int\n}" % (o, k))
            return kind, "\n\n".join(doc)
    q = schema.query_type.name
    return "new-type", (
        "type ExtNew%d {\n  a: Int\n  peer: %s\n}\n\n"
        "extend type %s {\n  ext_new_%d: ExtNew%d\n}" % (k, q, q, k, k))


def _input_arg_sites(schema):
    """[(root field name, argument name, input object type name)] for root
    query fields that take an input object (possibly wrapped) argument."""
    out = []
    q = schema.query_type
    if q is None:
        return out
    for f in q.fields:
        for a in f.arguments:
            t = _named(a.type)
            if isinstance(t, InputObjectType):
                out.append((f.name, a.name, t.name, str(a.type)))
    return out


_INPUT_PAYLOADS = {
    "Pt": {"x": 1, "y": 2, "tag": "t", "z": 3, "z_index": 4},
    "Box": {"pt": {"x": 1, "tag": "t"}, "tags": ["a"], "shade": "RED",
            "fill_color": "BLUE"},
}


def _payload_for(schema, tname):
    """A full object for input type ``tname`` (every field the type has NOW,
    from a fixed palette)."""
    t = schema.types.get(tname)
    base = _INPUT_PAYLOADS.get(tname)
    if t is None or base is None:
        return None
    have = {f.name for f in t.fields}
    camel_have = {camel(k): k for k in base}
    out = {}
    for n in have:
        if n in base:
            out[n] = base[n]
        elif n in camel_have:
            out[n] = base[camel_have[n]]
    return out


def standing_request(schema):
    """(text, variables): type conditions on every object type under the
    composite root fields, and one variable per input-typed root argument --
    the kind of persisted query a server keeps parsed."""
    q = schema.query_type
    sels = ["__typename"]
    vardefs, variables = [], {}
    for f in q.fields:
        args = []
        for a in f.arguments:
            t = _named(a.type)
            if isinstance(t, InputObjectType) and t.name in _INPUT_PAYLOADS:
                v = "v%d" % len(vardefs)
                vardefs.append("$%s: %s" % (v, a.type))
                pl = _payload_for(schema, t.name)
                variables[v] = [pl] if isinstance(
                    a.type.type if isinstance(a.type, NonNullType)
                    else a.type, ListType) else pl
                args.append("%s: $%s" % (a.name, v))
        call = "%s%s" % (f.name, "(%s)" % ", ".join(args) if args else "")
        t = _named(f.type)
        if isinstance(t, (ObjectType, InterfaceType, UnionType)):
            if isinstance(t, ObjectType):
                poss = [t]
            else:
                poss = sorted(schema.get_possible_types(t),
                              key=lambda x: x.name)
            inner = " ".join("... on %s { __typename }" % p.name
                             for p in poss)
            sels.append("%s { __typename %s }" % (call, inner))
        elif args:
            sels.append(call)
    text = "query Standing%s { %s }" % (
        "(%s)" % ", ".join(vardefs) if vardefs else "", " ".join(sels))
    return text, variables


class Live:
    __slots__ = ("schema", "fp", "attrs", "hidden", "renamed", "origin",
                 "maybe_invalid", "doc", "doc_text", "doc_vars")

    def __init__(self, schema, origin, hidden=(), renamed=False,
                 maybe_invalid=False):
        self.schema = schema
        self.origin = origin
        self.hidden = set(hidden)
        self.renamed = renamed
        # applying schema directives does not validate its result
        self.maybe_invalid = maybe_invalid
        self.doc = None
        self.doc_text = None
        self.doc_vars = None
        self.refresh()

    def standing_problem(self):
        """The standing (parsed once, kept) document must be answered exactly
        like a fresh parse of the same text, at any time."""
        from py_gql.lang import parse
        if self.doc is None:
            try:
                self.doc_text, self.doc_vars = standing_request(self.schema)
            except Exception:  # noqa: B902 - no usable root
                return None
            self.doc = parse(self.doc_text)
        outs = []
        for d in (self.doc, self.doc_text):
            try:
                r = graphql_blocking(self.schema, d,
                                     variables=dict(self.doc_vars))
                outs.append(("response", r.response()))
            except SchemaValidationError:
                outs.append(("schema-invalid",))
            except Exception as err:  # noqa: B902
                outs.append(("raised", type(err).__name__, str(err)[:200]))
        if outs[0] != outs[1]:
            return outs
        return None

    def refresh(self):
        self.fp = _struct.describe(self.schema, identity=True)
        self.attrs = attributes(self.schema)


def _rename_key(key):
    if key[0] == "field":
        return key[:2] + (camel(key[2]),)
    if key[0] == "arg":
        return key[:2] + (camel(key[2]), camel(key[3]))
    if key[0] == "input_field":
        return key[:2] + (camel(key[2]),)
    return key


def _dropped_keys(a, b):
    """Names of the dict keys removed (at any depth) to get ``b`` from ``a``;
    None when ``b`` is not ``a`` with keys removed."""
    if isinstance(a, dict) and isinstance(b, dict):
        if not set(b) <= set(a):
            return None
        out = set(a) - set(b)
        for k in b:
            d = _dropped_keys(a[k], b[k])
            if d is None:
                return None
            out |= d
        return out
    if isinstance(a, (list, tuple)) and isinstance(b, (list, tuple)):
        if len(a) != len(b):
            return None
        out = set()
        for x, y in zip(a, b):
            d = _dropped_keys(x, y)
            if d is None:
                return None
            out |= d
        return out
    return set() if a == b and type(a) is type(b) else None


def _default_minus_hidden(va, vb, hidden_keys):
    """A default that lost exactly (some of) the hidden input fields was
    targeted by the operation that hid them."""
    if not hidden_keys:
        return False
    try:
        import ast as _pyast
        d = _dropped_keys(_pyast.literal_eval(va), _pyast.literal_eval(vb))
    except (ValueError, SyntaxError):
        return False
    return d is not None and bool(d) and (
        "*" in hidden_keys or d <= hidden_keys)


def _attr_diff(src_attrs, new_attrs, renames, hidden_keys=None):
    """First untouched attribute that changed: (attribute, detail)."""
    for key, a in src_attrs.items():
        nkey = _rename_key(key) if renames else key
        b = new_attrs.get(nkey)
        if b is None:
            continue  # element not present (removal is checked elsewhere)
        for attr, va in a.items():
            vb = b.get(attr)
            if callable(va) or callable(vb):
                same = va is vb
            else:
                same = va == vb
            if not same and attr == "default" and isinstance(va, str) \
                    and isinstance(vb, str) and _default_minus_hidden(
                        va, vb, hidden_keys):
                same = True
            if not same:
                return attr, "%r: %s was %r, now %r" % (
                    key, attr, getattr(va, "tag", va), getattr(vb, "tag", vb))
    return None


def run_machine(draws, state, tier):
    res = CaseResult()
    V = res.violations
    pool = state["pool"]
    st = draws.stream("ops")
    if st.below(4, "source_kind") == 0:
        entry = [e for e in pool if e.kind == "code"][st.below(2, "code")]
    else:
        # an SDL source of its own for every case
        from .pool import PoolEntry, gen_sdl
        sdl_seed = st.below(1 << 30, "sdl_seed")
        _parts = gen_sdl(sdl_seed, 0)
        entry = PoolEntry("sdl@%d" % sdl_seed, join_sdl(_parts), None, "sdl",
                          _parts)
    if entry.kind == "sdl":
        parts = list(entry.parts)
        plain_roots = ("type Query {" in entry.sdl
                       and "type Subscription" not in entry.sdl
                       and not any(p.startswith("schema") for p in parts))
        if plain_roots and st.chance(1, 2, "with_sub"):
            parts.append("type Subscription {\n  tick(a_n: Int = 1): Int\n}")
        source = build_schema(join_sdl(parts))
    else:
        source = code_schema(int(entry.name[-1]))
        source.validate()
    decorate(source, draws.stream("decor"))
    live = [Live(source, "source")]
    seq = []
    counter = [0]
    n_ops = 2 + st.below(6 if tier == "quick" else 11, "n_ops")

    def fail(oracle, key, detail):
        V.append(Violation(P, oracle, key, detail))

    for step in range(n_ops):
        if V:
            break
        op = st.weighted((3, 3, 2, 2, 3, 2, 2 if entry.kind == "sdl" else 0,
                          2, 2 if len(live) > 1 else 0), "op")
        # 0 clone, 1 visibility, 2 camelcase, 3 chained, 4 extend, 5 use,
        # 6 schema directives (applied to a clone of the target)
        li = st.below(len(live), "target")
        if op in (2, 3):
            # a second renaming pass over an already renamed schema is the
            # interesting one (python names must survive it)
            ren = [i for i, l in enumerate(live) if l.renamed]
            if ren and st.chance(1, 2, "rename_again"):
                li = ren[st.below(len(ren), "renamed_target")]
        src = live[li]
        opname = ("clone", "visibility", "camelcase", "chained", "extend",
                  "use", "directives", "configure", "in-place")[op]
        new = None
        hidden = None
        raised = None
        ext_directives = False
        flagged = set()
        if op == 8:
            # a transform applied IN PLACE to a derived schema (documented
            # for schema directives; visitors work the same way): the schema
            # object stays, its types are replaced -- everything kept about
            # it (a parsed document, caches) must follow
            li = 1 + st.below(len(live) - 1, "inplace_on")
            tgt = live[li]
            if tgt.renamed or tgt.maybe_invalid:
                continue
            pb = tgt.standing_problem()  # the document is known before
            if pb:
                fail("standing_document", ("before-in-place", pb[0][0],
                                           pb[1][0]), repr(pb)[:400])
                break
            how = st.below(2, "inplace_how")
            if entry.kind != "sdl":
                how = 1
            try:
                if how == 0:
                    seq.append(("in-place", li, "directives"))
                    newly = flagged_fields(tgt.schema)
                    apply_schema_directives(tgt.schema,
                                            [TagDirective, FlagDirective])
                    tgt.maybe_invalid = True
                else:
                    names = sorted(
                        n for n in gql_names(tgt.schema)
                        if n[0] in ("type", "field", "input_field")
                        and not n[1].startswith("__")
                        and not (n[0] == "type" and n[1] in _struct.SPECIFIED)
                        and not (tgt.schema.query_type is not None
                                 and n[1] == tgt.schema.query_type.name))
                    h = names[st.below(len(names), "inplace_hide")]
                    seq.append(("in-place", li, h))
                    newly = {h}
                    Hide(h).on_schema(tgt.schema)
            except GraphQLError:
                res.count("op_refused:in-place")
                tgt.maybe_invalid = True
                tgt.refresh()
                continue
            except Exception as err:  # noqa: B902
                fail("source_modified", ("in-place", "crashed"),
                     "in-place transform of live[%d] raised %r" % (li, err))
                break
            res.count("op:in-place")
            try:
                from py_gql.schema.validation import validate_schema
                validate_schema(tgt.schema)  # (not the memoised verdict)
            except SchemaValidationError:
                # nothing validates an in-place transform: hiding a type may
                # leave an interface without implementation, a type empty...
                tgt.maybe_invalid = True
            tgt.hidden |= set(newly)
            tgt.refresh()
            pc = closure_problem(tgt.schema)
            if pc:
                fail("closure", ("in-place", "result", pc[0]),
                     "in-place transform of live[%d] (%s): %s" % (
                         li, tgt.origin, pc[1]))
                break
            pb = tgt.standing_problem()
            if pb:
                fail("standing_document", ("after-in-place", pb[0][0],
                                           pb[1][0]),
                     "live[%d] (%s) after an in-place transform: the kept "
                     "document %r is answered %r, a fresh parse of its text "
                     "%r" % (li, tgt.origin, tgt.doc_text, pb[0], pb[1]))
                break
            for oi, other in enumerate(live):
                if other is tgt:
                    continue
                d = _struct.diff(other.fp, _struct.describe(other.schema,
                                                            identity=True))
                if d:
                    what = [p for p in d[0] if isinstance(p, str)]
                    fail("source_modified",
                         ("in-place", what[0] if what else "?"),
                         "an in-place transform of live[%d] changed live[%d] "
                         "(%s) at %r" % (li, oi, other.origin, d[0]))
                    break
            continue
        if op == 7:
            # configure a derived schema (register a resolver on it): no other
            # live schema may notice
            if st.chance(1, 3, "refused_cfg"):
                # a registration that is REFUSED changes nothing, on any live
                # schema (the source included)
                li = st.below(len(live), "refused_on")
                tgt = live[li]
                sch = tgt.schema
                objs = sorted(n for n, t in sch.types.items()
                              if isinstance(t, ObjectType) and t.fields
                              and not n.startswith("__"))
                others = sorted(n for n, t in sch.types.items()
                                if not isinstance(t, ObjectType)
                                and not n.startswith("__"))
                kind = st.below(4, "refused_kind")
                tname = objs[st.below(len(objs), "cfg_type")]
                fields = sch.types[tname].fields
                fname = fields[st.below(len(fields), "cfg_field")].name
                fn = _mk("refused:%s.%s@%d" % (tname, fname, step))
                how = ("register_resolver", "register_subscription",
                       "register_default_resolver")[st.below(3, "cfg_api")]
                if kind == 0:
                    tname = "NoSuchType%d" % step
                elif kind == 1:
                    fname = "no_such_field_%d" % step
                elif kind == 2 and others:
                    tname = others[st.below(len(others), "cfg_other")]
                else:
                    kind = 3  # no allow_override where something is set
                seq.append(("refused-configure", li, how, kind))
                try:
                    if how == "register_default_resolver":
                        sch.register_default_resolver(tname, fn)
                    else:
                        getattr(sch, how)(tname, fname, fn)
                except (GraphQLError, ValueError, KeyError):
                    res.count("probe:refused_configure")
                    d = _struct.diff(tgt.fp, _struct.describe(sch,
                                                              identity=True))
                    if d:
                        what = [p for p in d[0] if isinstance(p, str)]
                        fail("source_modified",
                             ("refused-configure", what[0] if what else "?"),
                             "%s(%r, ...) on live[%d] (%s) was refused yet "
                             "changed it at %r" % (how, tname, li, tgt.origin,
                                                   d[0]))
                        break
                else:
                    tgt.refresh()  # accepted after all (nothing was set)
                continue
            if len(live) < 2:
                continue
            li = 1 + st.below(len(live) - 1, "derived")
            tgt = live[li]
            objs = sorted(n for n, t in tgt.schema.types.items()
                          if isinstance(t, ObjectType) and t.fields
                          and not n.startswith("__"))
            tname = objs[st.below(len(objs), "cfg_type")]
            fields = tgt.schema.types[tname].fields
            fname = fields[st.below(len(fields), "cfg_field")].name
            seq.append(("configure", li, (tname, fname)))
            try:
                tgt.schema.register_resolver(
                    tname, fname, _mk("cfg:%s.%s@%d" % (tname, fname, step)),
                    allow_override=True)
            except GraphQLError:
                res.count("op_refused:configure")
            tgt.refresh()
            for oi, other in enumerate(live):
                if other is tgt:
                    continue
                d = _struct.diff(other.fp, _struct.describe(other.schema,
                                                            identity=True))
                if d:
                    what = [p for p in d[0] if isinstance(p, str)]
                    fail("source_modified",
                         ("configure", what[0] if what else "?"),
                         "registering a resolver on live[%d] (%s) changed "
                         "live[%d] (%s) at %r" % (li, tgt.origin, oi,
                                                  other.origin, d[0]))
                    break
            continue
        if op == 5:
            seq.append(("use", li))
            pb = src.standing_problem()
            if pb:
                fail("standing_document", ("use", pb[0][0], pb[1][0]),
                     "live[%d] (%s): the kept document %r is answered %r, a "
                     "fresh parse of its text %r" % (
                         li, src.origin, src.doc_text, pb[0], pb[1]))
                break
            try:
                graphql_blocking(src.schema, "{ __typename }")
                src.schema.to_string()
                src.schema.validate()
                pb = _abstract_use_problem(src.schema)
                if pb:
                    fail("attribute_lost", ("use", "resolve_type-unusable"),
                         "live[%d] (%s): %s" % (li, src.origin, pb))
                    break
            except SchemaValidationError as err:
                if not src.maybe_invalid:
                    fail("source_modified", ("use", "invalid"),
                         "live[%d] (%s) no longer validates: %r"
                         % (li, src.origin, err))
            except Exception as err:  # noqa: B902
                fail("source_modified", ("use", "unusable"),
                     "live[%d] (%s) can no longer be queried/printed: %r"
                     % (li, src.origin, err))
            continue
        if op in (1, 3):
            names = sorted(
                n for n in gql_names(src.schema)
                if not n[1].startswith("__")
                and not (n[0] == "directive"
                         and n[1] in _struct.SPECIFIED_DIRECTIVES)
                and n[0] != "arg"
                and not (n[0] == "type"
                         and src.schema.query_type is not None
                         and n[1] == src.schema.query_type.name))
            hidden = names[st.below(len(names), "hide")]
        seq.append((opname, li, hidden))
        try:
            if op == 0:
                new = src.schema.clone()
            elif op == 1:
                new = transform_schema(src.schema, Hide(hidden))
            elif op == 2:
                new = transform_schema(src.schema, CamelCaseSchemaTransform())
            elif op == 3:
                new = transform_schema(src.schema, Hide(hidden),
                                       CamelCaseSchemaTransform())
            elif op == 6:
                flagged = flagged_fields(src.schema)
                new = apply_schema_directives(
                    src.schema.clone(), [TagDirective, FlagDirective])
            else:
                est = draws.stream("ext%d" % step)
                kind, doc = gen_extension(est, src.schema, counter)
                ext_kw = {}
                if kind == "nothing-new":
                    ext_kw["strict"] = False
                if entry.kind == "sdl" and est.chance(1, 3, "ext_directives"):
                    # schema directives handed to the extension: they are for
                    # the RESULT
                    ext_kw["schema_directives"] = [TagDirective,
                                                   FlagDirective]
                    flagged = flagged_fields(src.schema)
                    ext_directives = True
                    kind += "+directives"
                seq[-1] = (opname, li, kind)
                new = extend_schema(src.schema, doc, **ext_kw)
        except GraphQLError as err:
            # A refused operation.  The documented refusals are "the result
            # would not be a valid schema" (transforms and extensions validate
            # what they return) and the SDL-level ones of extension documents
            # and schema directives (already applied, unknown).  clone() has
            # none, and no operation may refuse a live schema because of what
            # an EARLIER derivation left in it (a transform result is a schema
            # like any other: "all valid schemas").
            raised = err
            res.count("op_refused:" + opname)
            res.count("refusal:%s:%s" % (opname, type(err).__name__))
            legit = isinstance(err, SchemaValidationError) or (
                op in (4, 6) and isinstance(err, SDLError))
            if op == 0 or not legit:
                fail("source_modified", (opname, "refused",
                                         type(err).__name__),
                     "%s of live[%d] (%s) was refused with %r although the "
                     "schema is valid%s" % (
                         opname, li, src.origin, err,
                         " (it may be invalid: schema directives applied)"
                         if src.maybe_invalid else ""))
                break
        except Exception as err:  # noqa: B902
            fail("source_modified", (opname, "crashed"),
                 "%s on live[%d] (%s) raised %r" % (opname, li, src.origin,
                                                    err))
            break
        res.count("op:" + opname)
        if hidden is not None and hidden[0] == "type" and \
                hidden[1] in _struct.SPECIFIED:
            # specified scalars cannot be hidden: asking for it removes
            # NOTHING (not the type, not the fields / input fields / arguments
            # of that type)
            res.count("probe:hide_specified_scalar")
            hidden = None

        # ---- source untouched (clone-based operations) -------------------
        if op in (0, 1, 2, 3, 4, 6):
            fp = _struct.describe(src.schema, identity=True)
            d = _struct.diff(src.fp, fp)
            if d:
                what = [p for p in d[0] if isinstance(p, str)]
                fail("source_modified", (opname, what[-1] if what else "?"),
                     "%s on live[%d] (%s) changed the source at %r: %r -> %r"
                     % (opname, li, src.origin, d[0], d[1], d[2]))
                break
            p = closure_problem(src.schema)
            if p:
                fail("closure", (opname, "source", p[0]),
                     "after %s the source live[%d]: %s" % (opname, li, p[1]))
                break
        if new is None:
            continue
        if new is src.schema:
            continue  # extension with nothing to do returns the same object

        # ---- closure of the result -----------------------------------------
        p = closure_problem(new)
        if p:
            fail("closure", (opname, "result", p[0]),
                 "%s of live[%d] (%s): %s" % (opname, li, src.origin, p[1]))
            break

        # ---- removal: default values name existing input fields only ------
        p = default_key_problem(new)
        if p:
            fail("removed_reachable", ("input_field", "default-value"),
                 "%s of live[%d] (%s): %s" % (opname, li, src.origin, p))
            break

        # ---- removal -------------------------------------------------------
        all_hidden = set(src.hidden)
        if op == 6 or ext_directives:
            all_hidden |= flagged
        if hidden is not None:
            h = hidden
            if op == 3 and h[0] in ("field", "input_field"):
                h = h[:2] + (camel(h[2]),)
            all_hidden = {x for x in all_hidden}
            all_hidden.add(h)
        if all_hidden:
            reach = gql_names(new)
            for h in all_hidden:
                if h in reach:
                    fail("removed_reachable", (h[0], "traversal"),
                         "%r hidden but still present after %s" % (h, opname))
                    break
            if V:
                break
            try:
                intro = introspected_names(new)
            except SchemaValidationError:
                if op != 6 and not ext_directives and not src.maybe_invalid:
                    raise
                intro = set()
            except Exception as err:  # noqa: B902
                fail("removed_reachable", ("introspection", "failed"),
                     repr(err))
                break
            for h in all_hidden:
                if h in intro:
                    fail("removed_reachable", (h[0], "introspection"),
                         "%r hidden but reported by introspection after %s"
                         % (h, opname))
                    break
            if V:
                break
            if hidden is not None and hidden[0] == "field" and \
                    new.query_type is not None and \
                    hidden[1] == new.query_type.name:
                fname = camel(hidden[2]) if op == 3 else hidden[2]
                r = graphql_blocking(new, "{ %s }" % fname)
                if not r.errors:
                    fail("removed_reachable", ("field", "query"),
                         "hidden root field %r can still be queried" % fname)
                    break
            if hidden is not None and hidden[0] == "input_field" and \
                    not src.maybe_invalid:
                # the hidden input field handed in through a VARIABLE
                fname_h = camel(hidden[2]) if op == 3 else hidden[2]
                sites = [x for x in _input_arg_sites(new)
                         if x[2] == hidden[1]]
                if sites:
                    qf, an, tn, tstr = sites[0]
                    payload = _payload_for(new, tn) or {}
                    payload[fname_h] = 1
                    wrap = "[" in tstr
                    rt = _named(new.query_type.field_map[qf].type)
                    sub = " { __typename }" if isinstance(
                        rt, (ObjectType, InterfaceType, UnionType)) else ""
                    try:
                        r = graphql_blocking(
                            new, "query($v: %s) { %s(%s: $v)%s }" % (
                                tstr, qf, an, sub),
                            variables={"v": [payload] if wrap else payload})
                        resp = r.response()
                        refused = bool(resp.get("errors")) and \
                            resp.get("data") is None and any(
                                fname_h in e.get("message", "")
                                for e in resp["errors"])
                    except SchemaValidationError:
                        refused = True
                    res.count("probe:hidden_input_field_through_variable")
                    if not refused:
                        fail("removed_reachable", ("input_field", "variable"),
                             "input field %s.%s is hidden, yet a variable "
                             "carrying it is accepted by %s(%s:)" % (
                                 tn, fname_h, qf, an))
                        break

        # ---- nothing else disappeared ----------------------------------------
        if op in (0, 1, 2, 3, 4, 6):
            before = gql_names(src.schema)
            gone = set()
            targets = []
            if hidden is not None:
                targets.append(hidden)
            if op == 6 or ext_directives:
                targets.extend(flagged)
            for h in targets:
                gone.add(h)
                if h[0] == "type":
                    gone |= collateral_of_type(src.schema, h[1])
                elif h[0] == "field":
                    gone |= {n for n in before
                             if n[0] == "arg" and n[1:3] == h[1:3]}
            expect = before - gone
            if op in (2, 3):
                expect = {_rename_key(n) if n[0] != "directive" else n
                          for n in expect}
            missing = sorted(expect - gql_names(new))
            if missing:
                fail("attribute_lost", (opname, "element:" + missing[0][0]),
                     "%s of live[%d] (%s): %r disappeared although the "
                     "operation did not target it" % (opname, li, src.origin,
                                                      missing[0]))
                break

        # ---- preservation --------------------------------------------------
        new_attrs = attributes(new)
        hidden_keys = set()
        for h in all_hidden:
            if h[0] == "input_field":
                hidden_keys |= {h[2], camel(h[2])}
                if hidden is not None and hidden[0] == "input_field":
                    hidden_keys.add(hidden[2])
            elif h[0] == "type":
                hidden_keys.add("*")  # every input field of that type
        d = _attr_diff(src.attrs, new_attrs, op in (2, 3), hidden_keys)
        if d:
            fail("attribute_lost", (opname, d[0]),
                 "%s of live[%d] (%s): %s" % (opname, li, src.origin, d[1]))
            break
        nl = Live(new, "%s(live[%d])" % (opname, li), all_hidden,
                  src.renamed or op in (2, 3),
                  src.maybe_invalid or op == 6)
        live.append(nl)
        if len(live) > 5:
            live.pop(1)
    # ---- final: every live schema is still usable, repeatedly --------------
    if not V:
        for i, l in enumerate(live):
            try:
                if l.maybe_invalid:
                    l.schema.to_string()
                    continue
                graphql_blocking(l.schema, "{ __typename }")
                l.schema.to_string()
                l.schema.clone()
                transform_schema(l.schema, CamelCaseSchemaTransform())
                transform_schema(l.schema, CamelCaseSchemaTransform())
            except Exception as err:  # noqa: B902
                fail("source_modified", ("final-use", "unusable"),
                     "live[%d] (%s): %r" % (i, l.origin, err))
                break
    kinds = {s[0] for s in seq}
    sig = hashlib.sha256(repr(seq).encode()).hexdigest()[:16]
    res.signatures.append((sig, len(seq) >= 3 and len(kinds) >= 2))
    res.count("runs")
    res.count("ops", len(seq))
    res.count("live_schemas", len(live))
    res.digest = hashlib.sha256(
        repr((seq, [(v.oracle, v.key) for v in V])).encode()).hexdigest()
    res.samples = {"source": entry.name, "ops": [list(s) for s in seq]}
    return res


def evidence_meta():
    return {
        "rule": (
            "one case = one process lifetime: a decorated source schema and "
            "2..12 clone / visibility / camel-case / chained / extend / use "
            "operations applied to any live schema (re-applied to the same "
            "source on purpose); closure, removal, preservation and "
            "source-untouched checked after every operation; distinct = "
            "distinct operation sequence; non-trivial = length >= 3 with >= 2 "
            "operation kinds"),
        "real_vs_stub": {
            "real": ["py_gql Schema.clone, transform_schema, "
                     "VisibilitySchemaTransform, CamelCaseSchemaTransform, "
                     "extend_schema, fix_type_references, introspection, "
                     "printer, executor"],
            "stub": ["resolver / resolve_type callables (identity markers)"],
        },
        "assumptions": [
            "an operation refused with one of the library's errors leaves "
            "only the source-untouched invariant to check",
            "preservation is checked on elements present in both schemas, by "
            "python name; removal is checked for the hidden element itself",
        ],
    }
