"""Own structural description of a py-gql schema (no printer, no differ).

``describe(schema)`` returns plain nested data used to compare two schemas
structurally (C12 round-trip) and, with ``identity=True``, to fingerprint a
source schema *including object identities of its type graph* (C14).
"""
from py_gql.schema import (
    EnumType,
    InputObjectType,
    InterfaceType,
    ListType,
    NonNullType,
    ObjectType,
    ScalarType,
    UnionType,
)

SPECIFIED = ("Int", "Float", "String", "Boolean", "ID")
SPECIFIED_DIRECTIVES = ("include", "skip", "deprecated")


def type_str(t):
    if isinstance(t, NonNullType):
        return type_str(t.type) + "!"
    if isinstance(t, ListType):
        return "[" + type_str(t.type) + "]"
    return t.name


def named_of(t):
    while isinstance(t, (NonNullType, ListType)):
        t = t.type
    return t


def literal(value, t):
    """GraphQL literal text of a default value, by our own rules."""
    if isinstance(t, NonNullType):
        return literal(value, t.type)
    if value is None:
        return "null"
    if isinstance(t, ListType):
        if isinstance(value, (list, tuple)):
            return "[" + ", ".join(literal(v, t.type) for v in value) + "]"
        return literal(value, t.type)
    if isinstance(t, EnumType):
        for ev in t.values:
            if ev.value == value:
                return ev.name
        return "<unknown enum value %r>" % (value,)
    if isinstance(t, InputObjectType):
        parts = []
        for f in t.fields:
            if f.name in value:
                parts.append("%s: %s" % (f.name, literal(value[f.name],
                                                         f.type)))
        return "{" + ", ".join(parts) + "}"
    if isinstance(value, bool):
        return "true" if value else "false"
    if t.name not in SPECIFIED:
        # custom scalar: a rebuilt schema only knows the literal's text
        return str(value)
    if isinstance(value, (int, float)):
        return repr(value)
    return "s:" + str(value)


def _args(args, identity):
    out = []
    for a in args or []:
        row = [a.name, type_str(a.type),
               literal(a.default_value, a.type) if a.has_default_value
               else "<none>", a.description]
        if identity:
            row += [id(a), id(named_of(a.type)), a.python_name]
        out.append(tuple(row))
    return out


def describe(schema, identity=False, descriptions=True):
    types = {}
    for name, t in schema.types.items():
        if name in SPECIFIED or name.startswith("__"):
            continue
        d = {"description": t.description if descriptions else None}
        if identity:
            d["id"] = id(t)
        if isinstance(t, (ObjectType, InterfaceType)):
            d["kind"] = "object" if isinstance(t, ObjectType) else "interface"
            if isinstance(t, ObjectType):
                d["interfaces"] = [
                    (i.name, id(i)) if identity else i.name
                    for i in t.interfaces]
                if identity:
                    d["default_resolver"] = id(t.default_resolver) \
                        if t.default_resolver else None
            elif identity:
                d["resolve_type"] = id(t.resolve_type) \
                    if t.resolve_type else None
            fields = []
            for f in t.fields:
                row = {
                    "name": f.name, "type": type_str(f.type),
                    "description": f.description if descriptions else None,
                    "deprecated": f.deprecated,
                    "reason": f.deprecation_reason,
                    "args": _args(f.arguments, identity),
                }
                if not descriptions:
                    row["args"] = [a[:3] + (None,) + a[4:]
                                   for a in row["args"]]
                if identity:
                    row["id"] = id(f)
                    row["type_id"] = id(named_of(f.type))
                    row["resolver"] = id(f.resolver) if f.resolver else None
                    row["sub"] = id(f.subscription_resolver) \
                        if f.subscription_resolver else None
                    row["python_name"] = f.python_name
                fields.append(row)
            d["fields"] = fields
        elif isinstance(t, UnionType):
            d["kind"] = "union"
            d["members"] = [(m.name, id(m)) if identity else m.name
                            for m in t.types]
            if identity:
                d["resolve_type"] = id(t.resolve_type) \
                    if t.resolve_type else None
        elif isinstance(t, EnumType):
            d["kind"] = "enum"
            d["values"] = [
                (v.name, v.description if descriptions else None,
                 v.deprecated, v.deprecation_reason)
                + ((repr(v.value),) if identity else ())
                for v in t.values]
        elif isinstance(t, InputObjectType):
            d["kind"] = "input"
            rows = _args(t.fields, identity)
            if not descriptions:
                rows = [a[:3] + (None,) + a[4:] for a in rows]
            d["fields"] = rows
        elif isinstance(t, ScalarType):
            d["kind"] = "scalar"
        else:
            d["kind"] = type(t).__name__
        types[name] = d
    directives = {}
    for name, dv in schema.directives.items():
        if name in SPECIFIED_DIRECTIVES:
            continue
        rows = _args(dv.arguments, identity)
        if not descriptions:
            rows = [a[:3] + (None,) + a[4:] for a in rows]
        directives[name] = {
            "description": dv.description if descriptions else None,
            "locations": list(dv.locations),
            "args": rows,
        }
    roots = tuple(
        (r.name if r is not None else None)
        for r in (schema.query_type, schema.mutation_type,
                  schema.subscription_type))
    out = {"types": types, "directives": directives, "roots": roots}
    if identity:
        # the resolver registry carried by the schema object
        out["registry"] = {
            "resolvers": {t: {f: id(fn) for f, fn in sorted(fs.items())}
                          for t, fs in sorted(schema.resolvers.items())},
            "subscriptions": {
                t: {f: id(fn) for f, fn in sorted(fs.items())}
                for t, fs in sorted(schema.subscriptions.items())},
            "default_resolvers": {
                t: id(fn) for t, fn in sorted(
                    schema.default_resolvers.items())},
            "default_resolver": id(schema.default_resolver)
            if schema.default_resolver else None,
        }
    return out


def diff(a, b, path=()):
    """First difference between two describe() results: (path, a, b)."""
    if type(a) is not type(b):
        return path, a, b
    if isinstance(a, dict):
        for k in a:
            if k not in b:
                return path + (k,), a[k], "<missing>"
        for k in b:
            if k not in a:
                return path + (k,), "<missing>", b[k]
        for k in a:
            d = diff(a[k], b[k], path + (k,))
            if d:
                return d
        return None
    if isinstance(a, (list, tuple)):
        if len(a) != len(b):
            return path + ("len",), len(a), len(b)
        for i, (x, y) in enumerate(zip(a, b)):
            d = diff(x, y, path + (i,))
            if d:
                return d
        return None
    if a != b:
        return path, a, b
    return None
