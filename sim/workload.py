"""Workload generator: schema spec, operation tree, renderer.

The generator knows the schema and the operation as *its own* data structures
(it never reads them back from py-gql), so the reference model in model.py can
compute the expected response without trusting py-gql's parser, validator or
type system.  Everything is drawn from a ``Stream``; 0 is the simplest choice.
"""
import json

SCALARS = ("Int", "Float", "String", "Boolean", "ID")
LEAF_NAMES = SCALARS + ("Color", "Stamp")

# name, internal -- one internal value is spelled like the NAME of another
# member (values read from a text column)
ENUM_VALUES = (("RED", 10), ("GREEN", "BLUE"), ("BLUE", 30))


# --------------------------------------------------------------------------
# type references:  ("N", name) | ("L", inner) | ("NN", inner)
# --------------------------------------------------------------------------
def N(name):
    return ("N", name)


def L(t):
    return ("L", t)


def NN(t):
    return ("NN", t)


def tstr(t):
    if t[0] == "N":
        return t[1]
    if t[0] == "L":
        return "[%s]" % tstr(t[1])
    return "%s!" % tstr(t[1])


def named(t):
    while t[0] != "N":
        t = t[1]
    return t[1]


def is_list(t):
    if t[0] == "NN":
        t = t[1]
    return t[0] == "L"


WRAPPERS = (
    lambda t: t,
    lambda t: NN(t),
    lambda t: L(t),
    lambda t: NN(L(t)),
    lambda t: L(NN(t)),
    lambda t: NN(L(NN(t))),
    lambda t: L(L(t)),
)
WRAP_WEIGHTS = (6, 3, 3, 1, 2, 1, 1)
ABSTRACT_WRAP_WEIGHTS = (2, 1, 5, 2, 4, 2, 1)


class ArgDef:
    __slots__ = ("name", "type", "has_default", "default_py", "default_lit")

    def __init__(self, name, type_, has_default=False, default_py=None,
                 default_lit=None):
        self.name = name
        self.type = type_
        self.has_default = has_default
        self.default_py = default_py
        self.default_lit = default_lit


ARG_POOL = (
    ArgDef("n", N("Int")),
    ArgDef("s", N("String"), True, "dflt", '"dflt"'),
    ArgDef("c", N("Color")),
    ArgDef("i", N("Inp")),
    ArgDef("l", L(NN(N("Int")))),
    ArgDef("r", NN(N("Int"))),
    ArgDef("st", N("Stamp")),
    ArgDef("b", N("Boolean"), True, False, "false"),
    ArgDef("li", L(NN(N("Inp")))),
    ArgDef("ll", L(L(NN(N("Int"))))),
    # legal GraphQL argument names that are also parameter names somewhere
    # between the entry point and the resolver
    ArgDef("fn", N("Int")),
    ArgDef("self", N("String")),
    ArgDef("func", N("Boolean"), True, True, "true"),
    ArgDef("cls", N("Color")),
    ArgDef("value", L(NN(N("Int")))),
    ArgDef("node", N("Inp")),
    ArgDef("x", N("Float")),
    ArgDef("id", N("ID")),
    ArgDef("ids", L(NN(N("ID")))),
    ArgDef("xs", L(N("Float"))),
    # lists of nullable items: ``[1, null]`` is a value, and ``[Int]!`` /
    # ``[Int!]`` (as other arguments and stricter variables spell it) are
    # different types with the same ingredients
    ArgDef("ns", L(N("Int"))),
)

ODD_FIELD_NAMES = ("items", "keys", "values", "copy", "update", "get", "pop",
                   "count", "index", "class", "from", "None", "type", "format",
                   "real", "fields", "errors", "path", "node")

BEHAVIOURS = ("sync", "default", "async", "awaitable", "nested", "gen",
              "rtapi", "shared", "tdefault")
BEHAVIOUR_WEIGHTS = (5, 3, 5, 3, 2, 2, 2, 2, 2)


class FieldDef:
    __slots__ = ("name", "type", "args")

    def __init__(self, name, type_, args=()):
        self.name = name
        self.type = type_
        self.args = list(args)


class SchemaSpec:
    """The generator's own description of a schema."""

    def __init__(self):
        self.fields = {}      # global pool: field name -> FieldDef
        self.objects = {}     # name -> {"fields": [names], "interfaces": [..]}
        self.interfaces = {}  # name -> {"fields": [names]}
        self.unions = {}      # name -> [member object names]
        self.possible = {}    # abstract name -> [object names]
        self.query = "Query"
        self.mutation = None
        self.subscription = None
        self.behaviours = {}  # (type name, field name) -> behaviour
        self.resolve_type = {}  # abstract name -> "attr" | "fn-type" | "fn-name"
        self.objrepr = "obj"  # "obj" | "dict" | "sdict" | "map"
        self.root_default = False
        self.share_fields = False
        # GraphQL argument names handed to resolvers under another keyword
        # (Argument.python_name = "py_" + name)
        self.pyname_args = frozenset()
        # (type, field, argument) -> (python default, literal): an object type
        # may declare another default than its siblings / its interface
        self.arg_overrides = {}

    def arg_default(self, tname, fname, a):
        """(has_default, python value, literal) of argument ``a`` as declared
        on ``tname``."""
        o = self.arg_overrides.get((tname, fname, a.name))
        if o is not None:
            return True, o[0], o[1]
        return a.has_default, a.default_py, a.default_lit

    def type_fields(self, tname):
        if tname in self.objects:
            return self.objects[tname]["fields"]
        if tname in self.interfaces:
            return self.interfaces[tname]["fields"]
        return []

    def is_composite(self, tname):
        return (
            tname in self.objects
            or tname in self.interfaces
            or tname in self.unions
        )

    def is_abstract(self, tname):
        return tname in self.interfaces or tname in self.unions

    def possible_types(self, tname):
        if tname in self.objects:
            return [tname]
        return self.possible.get(tname, [])

    def overlapping(self, tname):
        """Composite type names whose possible types intersect tname's."""
        mine = set(self.possible_types(tname))
        out = []
        for cand in (
            list(self.objects) + list(self.interfaces) + list(self.unions)
        ):
            if mine.intersection(self.possible_types(cand)):
                out.append(cand)
        return out

    def sdl(self):
        out = []
        for iname, idef in self.interfaces.items():
            out.append("interface %s {" % iname)
            for f in idef["fields"]:
                out.append("  " + self._field_sdl(f))
            out.append("}")
        for oname, odef in self.objects.items():
            impl = ""
            if odef["interfaces"]:
                impl = " implements " + " & ".join(odef["interfaces"])
            out.append("type %s%s {" % (oname, impl))
            for f in odef["fields"]:
                out.append("  " + self._field_sdl(f, oname))
            out.append("}")
        for uname, members in self.unions.items():
            out.append("union %s = %s" % (uname, " | ".join(members)))
        out.append("enum Color { %s }" % " ".join(n for n, _ in ENUM_VALUES))
        out.append("scalar Stamp")
        out.append("input Inp { a: Int = 3, b: String, c: [Color!], "
                   "d: Int! = 10 }")
        if self.mutation or self.subscription:
            parts = ["query: %s" % self.query]
            if self.mutation:
                parts.append("mutation: %s" % self.mutation)
            if self.subscription:
                parts.append("subscription: %s" % self.subscription)
            out.append("schema { %s }" % " ".join(parts))
        return "\n".join(out) + "\n"

    def _field_sdl(self, fname, tname=None):
        f = self.fields[fname]
        args = ""
        if f.args:
            parts = []
            for a in f.args:
                p = "%s: %s" % (a.name, tstr(a.type))
                has, _py, lit = self.arg_default(tname, fname, a)
                if has:
                    p += " = %s" % lit
                parts.append(p)
            args = "(%s)" % ", ".join(parts)
        return "%s%s: %s" % (fname, args, tstr(f.type))


def gen_schema(st, want_mutation=False, small=False,
               want_subscription=False, allow_root_default=False):
    """Draw a schema spec.  ``st`` is a Stream."""
    spec = SchemaSpec()
    n_obj = 2 + st.below(2 if small else 4, "n_obj")
    n_if = st.below(2 if small else 3, "n_if")
    has_union = st.chance(1, 2, "union")
    obj_names = ["O%d" % i for i in range(n_obj)]
    if_names = ["I%d" % i for i in range(n_if)]

    # composite targets that fields may point at
    composite_targets = list(obj_names) + list(if_names)
    if has_union:
        composite_targets.append("U0")

    def draw_type(base):
        # positions of abstract type are mostly lists: heterogeneous lists are
        # where type-conditioned fragments and merging matter
        weights = ABSTRACT_WRAP_WEIGHTS if (
            base in if_names or base == "U0") else WRAP_WEIGHTS
        w = st.weighted(weights, "wrap")
        return WRAPPERS[w](N(base))

    def draw_args():
        n = st.weighted((5, 3, 2), "n_args")
        chosen = []
        for _ in range(n):
            a = ARG_POOL[st.below(len(ARG_POOL), "arg")]
            if all(c.name != a.name for c in chosen):
                chosen.append(a)
        return chosen

    # -- global field pool --------------------------------------------------
    n_leaf = 4 + st.below(5, "n_leaf")
    n_comp = 2 + st.below(4, "n_comp")
    leaf_fields, comp_fields = [], []
    # now and then fields are called what applications call them: names that
    # are also methods of the containers object values are made of, Python
    # keywords, names of builtins
    odd = st.chance(1, 3, "odd_names")

    def field_name(default):
        if odd and st.chance(1, 3, "odd_name"):
            cand = [n for n in ODD_FIELD_NAMES if n not in spec.fields]
            if cand:
                return cand[st.below(len(cand), "odd_pick")]
        return default

    for i in range(n_leaf):
        name = field_name("f%d" % i)
        base = LEAF_NAMES[st.below(len(LEAF_NAMES), "leaf")]
        spec.fields[name] = FieldDef(name, draw_type(base), draw_args())
        leaf_fields.append(name)
    for i in range(n_comp):
        name = field_name("g%d" % i)
        base = composite_targets[st.below(len(composite_targets), "ctarget")]
        spec.fields[name] = FieldDef(name, draw_type(base), draw_args())
        comp_fields.append(name)

    # -- interfaces -----------------------------------------------------------
    for iname in if_names:
        k = 1 + st.below(2, "if_nf")
        fields = []
        pool = leaf_fields + comp_fields
        for _ in range(k):
            f = pool[st.below(len(pool), "if_f")]
            if f not in fields:
                fields.append(f)
        if st.chance(2, 3, "if_comp"):
            f = comp_fields[st.below(len(comp_fields), "if_cf")]
            if f not in fields:
                fields.append(f)
        spec.interfaces[iname] = {"fields": fields}
        spec.possible[iname] = []

    # -- objects ------------------------------------------------------------
    for oname in obj_names:
        fields = []
        interfaces = []
        for iname in if_names:
            if st.chance(1, 2, "impl"):
                interfaces.append(iname)
                spec.possible[iname].append(oname)
                for f in spec.interfaces[iname]["fields"]:
                    if f not in fields:
                        fields.append(f)
        k = 1 + st.below(3, "obj_nleaf")
        for _ in range(k):
            f = leaf_fields[st.below(len(leaf_fields), "obj_leaf")]
            if f not in fields:
                fields.append(f)
        k = st.below(3, "obj_ncomp")
        for _ in range(k):
            f = comp_fields[st.below(len(comp_fields), "obj_comp")]
            if f not in fields:
                fields.append(f)
        spec.objects[oname] = {"fields": fields, "interfaces": interfaces}

    # every interface needs at least one implementation (schema validation
    # does not demand it, but an interface without possible types can never be
    # resolved): attach the first object.
    for iname in if_names:
        if not spec.possible[iname]:
            o = obj_names[0]
            spec.possible[iname].append(o)
            spec.objects[o]["interfaces"].append(iname)
            for f in spec.interfaces[iname]["fields"]:
                if f not in spec.objects[o]["fields"]:
                    spec.objects[o]["fields"].append(f)

    if has_union:
        members = []
        for o in obj_names:
            if st.chance(1, 2, "member"):
                members.append(o)
        if not members:
            members = [obj_names[0]]
        spec.unions["U0"] = members
        spec.possible["U0"] = list(members)

    # -- roots ------------------------------------------------------------
    qfields = []
    n_q = 2 + st.below(4, "n_q")
    for i in range(n_q):
        name = "q%d" % i
        if i == 0:
            base = composite_targets[st.below(len(composite_targets), "qt")]
        elif st.chance(1, 3, "qleaf"):
            base = LEAF_NAMES[st.below(len(LEAF_NAMES), "qleaft")]
        else:
            base = composite_targets[st.below(len(composite_targets), "qt")]
        spec.fields[name] = FieldDef(name, draw_type(base), draw_args())
        qfields.append(name)
    spec.objects["Query"] = {"fields": qfields, "interfaces": []}

    if want_mutation:
        mfields = []
        n_m = 2 + st.below(3, "n_m")
        for i in range(n_m):
            name = "m%d" % i
            if st.chance(1, 3, "mleaf"):
                base = LEAF_NAMES[st.below(len(LEAF_NAMES), "mleaft")]
            else:
                base = composite_targets[
                    st.below(len(composite_targets), "mt")
                ]
            spec.fields[name] = FieldDef(name, draw_type(base), draw_args())
            mfields.append(name)
        if st.chance(1, 4, "shared_mutation_root"):
            # legal: one object type serving as query AND mutation root
            spec.objects["Query"]["fields"].extend(mfields)
            spec.mutation = "Query"
        else:
            spec.objects["Mutation"] = {"fields": mfields, "interfaces": []}
            spec.mutation = "Mutation"

    if want_subscription:
        sfields = []
        for i in range(2):
            name = "s%d" % i
            if st.chance(1, 3, "sleaf"):
                base = LEAF_NAMES[st.below(len(LEAF_NAMES), "sleaft")]
            else:
                base = composite_targets[
                    st.below(len(composite_targets), "st")
                ]
            spec.fields[name] = FieldDef(name, draw_type(base), draw_args())
            sfields.append(name)
        if st.chance(1, 4, "shared_root"):
            # legal: one object type serving as query AND subscription root
            spec.objects["Query"]["fields"].extend(sfields)
            spec.subscription = "Query"
        else:
            spec.objects["Subscription"] = {"fields": sfields,
                                            "interfaces": []}
            spec.subscription = "Subscription"

    # -- per-type argument defaults ------------------------------------------
    alt = {"s": ("other", '"other"'), "b": (True, "true")}
    for oname in obj_names:
        for f in spec.objects[oname]["fields"]:
            for a in spec.fields[f].args:
                if a.name in alt and st.chance(1, 4, "arg_override"):
                    spec.arg_overrides[(oname, f, a.name)] = alt[a.name]

    # -- behaviours, type resolution style -----------------------------------
    spec.objrepr = ("obj", "dict", "obj", "sdict", "map")[
        st.below(5, "objrepr")]
    # root fields served by the library's default resolver from attributes /
    # methods of the root value handed to the entry point
    spec.root_default = bool(allow_root_default and spec.objrepr == "obj"
                             and st.chance(1, 3, "root_default"))
    for tname, tdef in spec.objects.items():
        for f in tdef["fields"]:
            b = BEHAVIOURS[st.weighted(BEHAVIOUR_WEIGHTS, "beh")]
            if b in ("gen", "rtapi") and not is_list(spec.fields[f].type):
                b = "sync"
            if b == "default" and spec.objrepr == "dict":
                b = "sync"
            if b == "default" and spec.objrepr == "map" and \
                    spec.fields[f].args:
                b = "sync"  # key lookup knows nothing of arguments
            if spec.objrepr == "sdict" and b != "default" and not (
                    spec.fields[f].args
                    or spec.is_composite(named(spec.fields[f].type))) and \
                    st.chance(1, 2, "beh_stored"):
                b = "default"  # dict-backed applications store their leaves
            if b == "default" and spec.objrepr == "sdict" and (
                    spec.fields[f].args
                    or spec.is_composite(named(spec.fields[f].type))):
                # a plain dict stores its values: only leaves are stored
                # (composite values would have to be built eagerly, without
                # end for recursive types)
                b = "sync"
            if b == "default" and tname in ("Query", "Mutation",
                                            "Subscription") and not (
                    spec.root_default and tname != "Subscription"):
                b = "sync"  # root value is None
            if b == "tdefault" and tname == "Subscription":
                b = "sync"
            spec.behaviours[(tname, f)] = b
    if st.chance(1, 2, "pynames"):
        spec.pyname_args = frozenset(
            a.name for a in ARG_POOL if st.chance(1, 3, "pyname"))
    spec.share_fields = st.chance(1, 2, "share_fields")
    if spec.share_fields:
        # fields listed by several object types are then mostly left to the
        # per-type default resolvers (each type has its own)
        owners = {}
        for (tname, f), b in spec.behaviours.items():
            if tname in obj_names:
                owners.setdefault(f, []).append(tname)
        for f, ts in sorted(owners.items()):
            if len(ts) >= 2 and st.chance(1, 2, "share_tdefault"):
                for tname in ts:
                    spec.behaviours[(tname, f)] = "tdefault"
    for aname in list(spec.interfaces) + list(spec.unions):
        spec.resolve_type[aname] = ("attr", "fn-type", "fn-name")[
            st.below(3, "rt")
        ]
    return spec


# --------------------------------------------------------------------------
# Operation tree
# --------------------------------------------------------------------------
class FieldSel:
    __slots__ = ("name", "alias", "args", "kwargs", "sel", "dirs", "pos",
                 "ptype", "argspec", "argerr", "defaulted")
    kind = "field"

    def __init__(self, name, alias=None, args=(), kwargs=None, sel=None,
                 dirs=(), argspec=None):
        self.name = name
        self.alias = alias
        self.args = list(args)      # [(arg name, rendered text)]
        self.argspec = argspec or {}  # arg name -> ("lit", py) | ("var", v)
        self.kwargs = kwargs or {}  # expected resolver-side kwargs
        self.sel = sel              # list of selections or None
        self.dirs = list(dirs)
        self.pos = None             # (line, column) filled by render()
        self.ptype = None
        self.argerr = False         # argument coercion fails at execution
        self.defaulted = ()         # arguments falling back to their default

    @property
    def key(self):
        return self.alias or self.name


class InlineFrag:
    __slots__ = ("cond", "sel", "dirs")
    kind = "inline"

    def __init__(self, cond, sel, dirs=()):
        self.cond = cond
        self.sel = sel
        self.dirs = list(dirs)


class Spread:
    __slots__ = ("frag", "dirs")
    kind = "spread"

    def __init__(self, frag, dirs=()):
        self.frag = frag
        self.dirs = list(dirs)


class DirSpec:
    __slots__ = ("kind", "text", "truth", "var")

    def __init__(self, kind, text, truth, var=None):
        self.kind = kind    # "skip" | "include"
        self.text = text    # "true" | "false" | "$b0"
        self.truth = truth  # bool
        self.var = var      # variable name when the condition is a variable


class VarInfo:
    """One operation variable: its definition and the value this request
    sends for it (which may be re-drawn to replay the same document with
    other variables)."""
    __slots__ = ("name", "tstr", "tref", "default_lit", "default_py",
                 "provided", "json", "py", "is_dir")

    def __init__(self, name, tstr_, tref, default_lit=None, default_py=None,
                 provided=True, json_value=None, py=None, is_dir=False):
        self.name = name
        self.tstr = tstr_
        self.tref = tref
        self.default_lit = default_lit
        self.default_py = default_py
        self.provided = provided
        self.json = json_value
        self.py = py
        self.is_dir = is_dir


def _stricter(t, how):
    """A type a variable may be declared with where ``t`` is expected: the
    outermost type made non-null (how 0), the items of a flat list made
    non-null (1), both (2)."""
    outer_nn = t[0] == "NN"
    core = t[1] if outer_nn else t
    if how in (1, 2) and core[0] == "L" and core[1][0] == "N":
        core = ("L", ("NN", core[1]))
    if how in (0, 2) or outer_nn:
        return ("NN", core)
    return core


def excluded(dirs):
    for d in dirs:
        if d.kind == "skip" and d.truth:
            return True
        if d.kind == "include" and not d.truth:
            return True
    return False


class OpSpec:
    def __init__(self):
        self.kind = "query"
        self.name = None
        self.root_type = None
        self.sel = []
        self.fragments = {}   # name -> (cond type, selections)
        self.vars = {}        # name -> VarInfo (insertion ordered)
        self.extra_op = False
        self.extra_first = False
        self.extra_text = None
        self.operation_name = None
        self.text = None

    @property
    def vardefs(self):
        return [(v.name, v.tstr, v.default_lit) for v in self.vars.values()]

    @property
    def variables(self):
        return {v.name: v.json for v in self.vars.values() if v.provided}


INT_VALUES = (0, 1, -1, 7, 42, -50)
# (literal text, JSON payload, value the resolver receives): an Int literal /
# integer payload is a legal Float input
# an ID is handed to the resolver as a string however the client spelt it
ID_VALUES = (('"abc"', "abc", "abc"), ("4", 4, "4"), ('"4"', "4", "4"),
             ("-7", -7, "-7"), ('""', "", ""))
FLOAT_VALUES = (("0.0", 0.0, 0.0), ("1.5", 1.5, 1.5), ("-2.25", -2.25, -2.25),
                ("1e3", 1000.0, 1000.0), ("3", 3, 3.0), ("-7", -7, -7.0),
                ("2.5E-1", 0.25, 0.25))
STR_VALUES = ("", "x", "hé", 'q"uo\\te', "two words", "line\nbreak",
              "snow ☃ and 🎈 astral", 'tri"""ple', "C:\\temp\\new",
              "back\\slash")


class OpGen:
    def __init__(self, st, spec, max_depth=3, budget=24, features=None):
        self.st = st
        self.spec = spec
        self.op = OpSpec()
        self.max_depth = max_depth
        self.budget = budget  # remaining field selections
        self.nvar = 0
        self.nfrag = 0
        self.complete_frags = []  # [(name, cond)] fully generated
        self.argsets = {}  # field name -> [ (args, kwargs) ], index 0 canonical
        self.features = features or {}

    # -- values -----------------------------------------------------------
    def _new_var(self, tref, lit_json_py=None, provided=True,
                 with_default=False, is_dir=False, tstr_=None):
        name = "v%d" % self.nvar
        self.nvar += 1
        v = VarInfo(name, tstr_ or tstr(tref), tref, is_dir=is_dir)
        if lit_json_py is not None:
            lit, js, py = lit_json_py
            if with_default:
                v.default_lit, v.default_py = lit, py
            if provided:
                v.json, v.py = js, py
        v.provided = provided
        self.op.vars[name] = v
        return name

    def _lit(self, base, st):
        """Return (literal text, json value, resolver-side python value)."""
        if base == "Int":
            v = INT_VALUES[st.below(len(INT_VALUES), "int")]
            return str(v), v, v
        if base == "String":
            v = STR_VALUES[st.below(len(STR_VALUES), "str")]
            shape = st.below(3, "str_shape")
            if "\\" in v and '"' not in v.replace('"""', "") and \
                    st.chance(1, 2, "block_for_backslash"):
                shape = 2  # raw backslashes are a block string's business
            if any(ord(ch) > 0xFFFF for ch in v):
                # astral characters are written raw: how a \uD83C\uDF88
                # escape pair decodes is a lexer matter (C02), not workload
                shape = 1
            if shape == 1:
                # raw (unescaped) non-ASCII characters in the document
                return json.dumps(v, ensure_ascii=False), v, v
            if shape == 2 and v and v.strip() == v and "\n" not in v \
                    and not v.endswith(('"', "\\")) \
                    and '"' not in v.replace('"""', ""):
                # block string form: backslashes are raw there, and the only
                # escape is \"""
                return '"""%s"""' % v.replace('"""', '\\"""'), v, v
            return json.dumps(v), v, v
        if base == "Boolean":
            v = bool(st.below(2, "bool"))
            return ("true" if v else "false"), v, v
        if base == "Float":
            return FLOAT_VALUES[st.below(len(FLOAT_VALUES), "float")]
        if base == "ID":
            return ID_VALUES[st.below(len(ID_VALUES), "id")]
        if base == "Color":
            name, internal = ENUM_VALUES[st.below(len(ENUM_VALUES), "enum")]
            return name, name, internal
        if base == "Stamp":
            v = INT_VALUES[st.below(len(INT_VALUES), "stamp")]
            return '"S:%d"' % v, "S:%d" % v, v
        if base == "Inp":
            # field a is always given explicitly (default filling of omitted
            # input-object fields through variables is C07 territory)
            a_lit, a_json, a_py = self._lit("Int", st)
            lit = ["a: %s" % a_lit]
            js = {"a": a_json}
            py = {"a": a_py}
            if st.chance(1, 2, "inp_b"):
                b_lit, b_json, b_py = self._lit("String", st)
                lit.append("b: %s" % b_lit)
                js["b"] = b_json
                py["b"] = b_py
            if st.chance(1, 2, "inp_c"):
                n = st.below(3, "inp_cn")
                items = [self._lit("Color", st) for _ in range(n)]
                lit.append("c: [%s]" % ", ".join(i[0] for i in items))
                js["c"] = [i[1] for i in items]
                py["c"] = [i[2] for i in items]
            # d: Int! = 10 -- a literal may leave it out (the default fills
            # it); a variable payload always spells it out
            if st.chance(1, 2, "inp_d_omitted"):
                js["d"] = py["d"] = 10
            else:
                d_lit, d_json, d_py = self._lit("Int", st)
                lit.append("d: %s" % d_lit)
                js["d"] = d_json
                py["d"] = d_py
            return "{%s}" % ", ".join(lit), js, py
        raise AssertionError(base)

    def _value(self, t, st, single_ok=None):
        """(literal, json, py) for an input type ref."""
        if t[0] == "NN":
            return self._value(t[1], st, single_ok)
        if t[0] == "L":
            if single_ok is None:
                # "a single value in a list position is wrapped" is exercised
                # for flat lists only; wrapping inside nested lists is input
                # coercion proper (C07) and is not used as workload
                inner = t[1][1] if t[1][0] == "NN" else t[1]
                single_ok = inner[0] != "L"
            n = st.below(4 if single_ok else 3, "list_n")
            if n == 3:
                # single value in list position is wrapped
                lit, js, py = self._value(t[1], st, False)
                return lit, js, [py]
            items = [self._value(t[1], st, False) for _ in range(n)]
            if n and t[1][0] == "N" and not self.features.get(
                    "literal_only") and st.chance(1, 3, "null_item"):
                # a null item where the item type is nullable
                items[st.below(n, "null_item_at")] = ("null", None, None)
            return (
                "[%s]" % ", ".join(i[0] for i in items),
                [i[1] for i in items],
                [i[2] for i in items],
            )
        return self._lit(t[1], st)

    def _gen_argset(self, fdef):
        """Draw one way of calling ``fdef``:
        ([(name, text)], {name: ("lit", py) | ("var", varname)})."""
        st = self.st
        args, argspec = [], {}
        for a in fdef.args:
            required = a.type[0] == "NN"
            w = (4, 3, 2, 1) if not required else (4, 3, 0, 0)
            if self.features.get("literal_only"):
                # scalar / enum literals or omitted: such argument sets may be
                # repeated under one response key
                if a.type[0] == "L" or named(a.type) == "Inp":
                    if required:
                        w = (1, 0, 0, 0)
                    else:
                        continue
                else:
                    w = (3, 0, 1, 0) if not required else (1, 0, 0, 0)
            elif self.features.get("prefer_vars"):
                w = (1, 8, 1, 0) if not required else (1, 8, 0, 0)
            mode = st.weighted(w, "argmode")
            # 0 literal, 1 variable, 2 omitted, 3 explicit null
            if mode == 2:
                continue
            if (a.type[0] == "L" and a.type[1][0] == "NN"
                    and not self.features.get("literal_only")
                    and st.chance(1, 3, "nnlistvar")):
                # ``[$v]`` with ``$v: T = default`` in a list of non-null T:
                # valid (the default makes the nullable variable usable),
                # but an explicit null for $v is a coercion error raised
                # when the field's arguments are assembled -- a field error.
                inner = a.type[1][1]
                val = self._value(inner, st)
                state = st.weighted((3, 2, 2), "nnlistvar_state")
                v = self._new_var(inner, val, provided=(state != 1),
                                  with_default=True)
                if state == 2:
                    self.op.vars[v].json = None
                    self.op.vars[v].py = None
                args.append((a.name, "[$%s]" % v))
                argspec[a.name] = ("nnlistvar", v)
                continue
            if (named(a.type) == "Inp"
                    and (a.type[0] != "L" or a.type[1][0] != "L")
                    and not self.features.get("literal_only")
                    and st.chance(1, 4, "objvar")):
                # an object literal holding a variable: ``{a: $v}`` with
                # ``$v: Int!``; in a list position the single object is
                # wrapped into a one-item list
                val = self._lit("Int", st)
                v = self._new_var(("NN", ("N", "Int")), val, provided=True)
                extra = {}
                text = "{a: $%s" % v
                if st.chance(1, 2, "objvar_b"):
                    b_lit, _b_json, b_py = self._lit("String", st)
                    text += ", b: %s" % b_lit
                    extra["b"] = b_py
                args.append((a.name, text + "}"))
                argspec[a.name] = ("objvar", v, extra, a.type[0] == "L"
                                   or (a.type[0] == "NN"
                                       and a.type[1][0] == "L"))
                continue
            if mode == 3:
                if st.chance(1, 2, "nullvar"):
                    v = self._new_var(a.type, None, provided=True)
                    args.append((a.name, "$" + v))
                    argspec[a.name] = ("var", v)
                else:
                    args.append((a.name, "null"))
                    argspec[a.name] = ("lit", None)
                continue
            if mode == 1 and a.type[0] == "L" and a.type[1][0] == "L" \
                    and st.chance(1, 3, "bare_nested"):
                # a bare value for a list-of-lists VARIABLE is wrapped once
                # per level (literals of that shape are input coercion proper,
                # C07, and stay out of the workload)
                _l, js, py = self._lit(named(a.type), st)
                v = self._new_var(a.type, ("null", js, [[py]]),
                                  provided=True)
                args.append((a.name, "$" + v))
                argspec[a.name] = ("var", v)
                continue
            val = self._value(a.type, st)
            if mode == 1:
                how = st.below(3, "varhow")
                if self.features.get("prefer_vars"):
                    how = 0
                if how == 0 or (how == 2 and required):
                    vt = a.type
                    if not self.features.get("prefer_vars") and \
                            st.chance(1, 3, "var_stricter"):
                        # a provided, null-free value may travel in a
                        # variable declared stricter than the argument:
                        # ``[T]`` is served by ``[T]!``, ``[T!]``, ``[T!]!``
                        sh = st.below(3, "var_stricter_how")
                        if isinstance(val[2], list) and any(
                                x is None for x in val[2]):
                            sh = 0  # items stay nullable
                        vt = _stricter(vt, sh)
                    v = self._new_var(vt, val, provided=True)
                elif how == 1:
                    # not provided, variable default applies
                    v = self._new_var(a.type, val, provided=False,
                                      with_default=True)
                else:
                    # not provided, no default: the argument is absent or
                    # takes the argument's own default
                    v = self._new_var(a.type, None, provided=False)
                args.append((a.name, "$" + v))
                argspec[a.name] = ("var", v)
            else:
                args.append((a.name, val[0]))
                argspec[a.name] = ("lit", val[2])
        return args, argspec

    def _argset_for(self, fdef, literal_only=False):
        """Pick (alias, args, kwargs).  Un-aliased occurrences always use
        argument set 0 so that same response key => identical arguments.

        Argument sets holding a variable, list, object or null value are used
        for one occurrence only (each further occurrence gets a fresh alias):
        py-gql's overlapping-fields rule raises AttributeError when it
        compares two such arguments -- a validator defect outside the
        properties decided here (C05), so the workload steers around it.
        """
        st = self.st
        sets = self.argsets.setdefault(fdef.name, {})
        idx = 0
        if st.chance(1, 4, "alias"):
            idx = 1 + st.below(2, "alias_idx")
        if idx in sets and sets[idx][2]:
            idx = max(sets) + 1
        if literal_only and idx not in sets:
            saved = self.features.get("literal_only")
            self.features["literal_only"] = True
            try:
                args, argspec = self._gen_argset(fdef)
            finally:
                self.features["literal_only"] = saved
            sets[idx] = (args, argspec, False)
        if idx not in sets:
            args, argspec = self._gen_argset(fdef)
            # (argument sets holding variables, lists, objects or null used
            # to be single-use: the overlapping-fields rule crashed on them
            # until fix ecc5d62)
            sets[idx] = (args, argspec, False)
        alias = None if idx == 0 else "%s_a%d" % (fdef.name, idx)
        args, argspec, _ = sets[idx]
        return alias, args, argspec

    # -- directives ---------------------------------------------------------
    def _dirs(self):
        st = self.st
        out = []
        if not st.chance(1, 6, "dir"):
            return out
        which = st.below(3, "dir_which")  # 0 skip, 1 include, 2 both
        for kind in (("skip",), ("include",), ("skip", "include"))[which]:
            truth = bool(st.below(2, "dir_truth"))
            val = ("true" if truth else "false", truth, truth)
            if st.chance(1, 3, "dir_var"):
                how = st.below(2, "dir_varhow")
                if how == 0:
                    v = self._new_var(NN(N("Boolean")), val, provided=True,
                                      is_dir=True)
                else:
                    v = self._new_var(N("Boolean"), val, provided=False,
                                      with_default=True, is_dir=True)
                out.append(DirSpec(kind, "$" + v, truth, var=v))
            else:
                out.append(DirSpec(kind, val[0], truth))
        return out

    # -- selections ---------------------------------------------------------
    def _remerge(self, tname, depth, outer):
        """Deliberately select again -- inside a fragment body on ``tname`` --
        a composite field the enclosing selection set already selects, with
        the same response key and arguments but a fresh sub-selection, so
        that same-key merging across type-conditioned fragments is
        exercised (heterogeneous lists then see different merged groups)."""
        spec = self.spec
        mine = spec.type_fields(tname)
        cands = [
            f for f in outer
            if f.kind == "field" and f.sel is not None and f.name in mine
        ]
        if not cands:
            return None
        src = cands[self.st.below(len(cands), "remerge_pick")]
        fdef = spec.fields[src.name]
        self.budget -= 1
        f = FieldSel(src.name, alias=src.alias, args=src.args,
                     argspec=src.argspec,
                     sel=self.gen_selset(named(fdef.type), depth - 1),
                     dirs=self._dirs())
        f.ptype = tname
        return f

    def _meta_selection(self):
        """A small introspection selection at the query root (the meta-field
        resolvers then run in the same gather / pool as ordinary ones)."""
        st = self.st
        if st.below(2, "meta_kind") == 0:
            inner = FieldSel("queryType", sel=[FieldSel("name")])
            f = FieldSel("__schema", sel=[inner])
        else:
            names = (sorted(self.spec.objects) + sorted(self.spec.interfaces)
                     + sorted(self.spec.unions))
            names.append("NoSuchType")  # legal: the answer is null
            t = names[st.below(len(names), "meta_type")]
            f = FieldSel("__type", args=[("name", json.dumps(t))],
                         sel=[FieldSel("name"), FieldSel("kind")])
            f.kwargs = {"name": t}
        if st.chance(1, 3, "meta_alias"):
            f.alias = "meta"
        f.ptype = self.spec.query
        return f

    def gen_selset(self, tname, depth, outer=None):
        st = self.st
        spec = self.spec
        sels = []
        if tname == spec.query and depth == self.max_depth and \
                st.chance(1, 8, "meta"):
            sels.append(self._meta_selection())
        if outer and depth > 0 and st.chance(1, 2, "remerge"):
            f = self._remerge(tname, depth, outer)
            if f is not None:
                sels.append(f)
        n = 1 + st.below(4, "n_sel")
        if self.budget > 4 and st.chance(1, 12, "wide_selset"):
            # now and then a wide selection set (one gather of 9+ entries)
            n = 9 + st.below(4, "n_sel_wide")
            self.budget += n
        if self.budget <= 0:
            n = 1
        fields = spec.type_fields(tname)
        if tname in spec.interfaces and depth > 0 and self.budget > 0:
            # on an interface, lead with a composite field selected for every
            # implementation and follow with a fragment on ONE implementation:
            # the same first node then stands for different merged groups
            comps = [f for f in fields
                     if spec.is_composite(named(spec.fields[f].type))]
            impls = spec.possible_types(tname)
            if comps and len(impls) > 1 and st.chance(3, 4, "if_lead"):
                lead = self._gen_field(tname, depth, only=comps,
                                       literal_args=True)
                if lead is not None:
                    sels.append(lead)
                    cond = impls[st.below(len(impls), "if_narrow")]
                    twin = self._remerge(cond, depth, [lead])
                    inner = self.gen_selset(cond, depth - 1)
                    if twin is not None:
                        inner.insert(st.below(len(inner) + 1, "twin_at"),
                                     twin)
                    sels.append(InlineFrag(cond, inner, self._dirs()))
        for _ in range(n):
            choice = st.weighted((8, 2, 2, 1), "sel_kind")
            # 0 field, 1 inline fragment, 2 spread, 3 __typename
            if choice == 3 or (choice == 0 and not fields):
                # (at a mutation root too: a meta field like any other,
                # answered in its place in the chain)
                alias = "tn" if st.chance(1, 4, "tn_alias") else None
                f = FieldSel("__typename", alias=alias, dirs=self._dirs())
                f.ptype = tname
                sels.append(f)
                continue
            if choice == 0:
                sel = self._gen_field(tname, depth)
                if sel is not None:
                    sels.append(sel)
                continue
            if depth <= 0 or self.budget <= 0:
                continue
            conds = spec.overlapping(tname)
            if choice == 1:
                ci = st.below(len(conds) + 1, "cond")
                cond = None if ci == 0 else conds[ci - 1]
                inner = self.gen_selset(cond or tname, depth - 1, outer=sels)
                if inner:
                    sels.append(InlineFrag(cond, inner, self._dirs()))
            else:
                reusable = [
                    nm for nm, c in self.complete_frags if c in conds
                ]
                if reusable and st.chance(1, 2, "reuse_frag"):
                    nm = reusable[st.below(len(reusable), "frag_pick")]
                    sels.append(Spread(nm, self._dirs()))
                else:
                    cond = conds[st.below(len(conds), "fcond")]
                    nm = "F%d" % self.nfrag
                    self.nfrag += 1
                    inner = self.gen_selset(cond, depth - 1, outer=sels)
                    if inner:
                        self.op.fragments[nm] = (cond, inner)
                        self.complete_frags.append((nm, cond))
                        sels.append(Spread(nm, self._dirs()))
        if depth > 0 and self.budget > 2 and st.chance(1, 8, "diamond"):
            sels.extend(self._diamond(tname))
        if not sels:
            # a selection set must not be empty
            if fields and self.budget > -8:
                sel = self._gen_field(tname, 0, force_leafish=True)
                if sel is not None:
                    sels.append(sel)
            if not sels:
                f = FieldSel("__typename")
                f.ptype = tname
                sels.append(f)
        return sels

    def _diamond(self, tname):
        """Nested named fragments met in two orders: ``x { ...A ...B }`` and
        ``y { ...B }`` with ``B = { ...A more }`` -- the first selection set
        collects B when A was already visited, the second one needs all of B
        (and both are selection sets of one type)."""
        spec, st = self.spec, self.st
        comps = [f for f in spec.type_fields(tname)
                 if spec.is_composite(named(spec.fields[f].type))]
        if not comps:
            return []
        lead = self._gen_field(tname, 1, only=comps, literal_args=True)
        if lead is None or lead.sel is None:
            return []
        inner_t = named(spec.fields[lead.name].type)
        a = "F%d" % self.nfrag
        b = "F%d" % (self.nfrag + 1)
        self.nfrag += 2
        sel_a = self.gen_selset(inner_t, 0)
        sel_b = [Spread(a)] + self.gen_selset(inner_t, 0)
        self.op.fragments[a] = (inner_t, sel_a)
        self.op.fragments[b] = (inner_t, sel_b)
        self.complete_frags.extend([(a, inner_t), (b, inner_t)])
        first = [Spread(a), Spread(b)]
        if st.below(2, "dm_order"):
            first.reverse()
        # (the selection generated for the lead stays: it may be the only use
        # of a declared variable)
        lead.sel = first + lead.sel if st.below(2, "dm_keep") else \
            lead.sel + first
        twin = FieldSel(lead.name, alias="dm%d" % self.nfrag, args=lead.args,
                        argspec=lead.argspec, sel=[Spread(b)])
        twin.ptype = tname
        out = [lead, twin]
        if st.below(2, "dm_twin_first"):
            out.reverse()
        return out

    def _gen_field(self, tname, depth, force_leafish=False, only=None,
                   literal_args=False):
        st = self.st
        spec = self.spec
        fields = only or spec.type_fields(tname)
        if not fields:
            return None
        cands = fields
        if depth <= 0 or force_leafish:
            leafish = [
                f for f in fields
                if not spec.is_composite(named(spec.fields[f].type))
            ]
            if leafish:
                cands = leafish
            else:
                f = FieldSel("__typename")
                f.ptype = tname
                return f
        fname = cands[st.below(len(cands), "field")]
        fdef = spec.fields[fname]
        alias, args, argspec = self._argset_for(fdef, literal_args)
        self.budget -= 1
        target = named(fdef.type)
        sel = None
        if spec.is_composite(target):
            sel = self.gen_selset(target, depth - 1)
        f = FieldSel(fname, alias=alias, args=args, argspec=argspec, sel=sel,
                     dirs=self._dirs())
        f.ptype = tname
        return f

    def generate(self, kind="query"):
        st = self.st
        op = self.op
        op.kind = kind
        op.root_type = {"query": self.spec.query,
                        "mutation": self.spec.mutation,
                        "subscription": self.spec.subscription}[kind]
        if kind == "subscription":
            which = self.features.get("sub_field", "s0")
            fdef = self.spec.fields[which]
            alias, args, argspec = self._argset_for(fdef)
            sel = None
            if self.spec.is_composite(named(fdef.type)):
                sel = self.gen_selset(named(fdef.type), self.max_depth - 1)
            f = FieldSel(which, alias=alias, args=args, argspec=argspec,
                         sel=sel)
            f.ptype = op.root_type
            op.sel = [f]
            op.name = "Sub" if st.chance(1, 2, "named") else None
            resolve_op(op, self.spec)
            return op
        if kind == "mutation":
            # 1..5 root fields, each possibly repeated / aliased / skipped
            sels = []
            n = 1 + st.below(5, "n_mut")
            depth = self.max_depth
            if st.chance(1, 16, "long_chain"):
                # dozens of root fields: the serial chain nests one level per
                # deferred root
                n = 34 + st.below(12, "n_mut_long")
                depth = 1
                self.budget += n
            for i in range(n):
                f = self._gen_field(op.root_type, depth)
                if f is not None:
                    if n >= 34:
                        f.alias = "c%d" % i  # every root its own response key
                    sels.append(f)
            sels = sels or [self._gen_field(op.root_type, 1)]
            if st.chance(1, 4, "mut_typename"):
                # a meta field among the root fields: answered in its place
                tn = FieldSel("__typename", alias="kind" if st.below(
                    2, "mut_tn_alias") else None)
                tn.ptype = op.root_type
                sels.insert(st.below(len(sels) + 1, "mut_tn_at"), tn)
            wrap = st.weighted((4, 1, 1, 1), "mut_wrap")
            if wrap:
                # root fields reached through a fragment: the whole list, or
                # a suffix of it, sits inside an inline fragment / a spread
                k = 0 if wrap == 3 else st.below(len(sels), "mut_wrap_at")
                inner = sels[k:]
                if wrap == 2:
                    nm = "F%d" % self.nfrag
                    self.nfrag += 1
                    op.fragments[nm] = (op.root_type, inner)
                    sels = sels[:k] + [Spread(nm)]
                else:
                    cond = op.root_type if st.below(2, "mut_cond") else None
                    sels = sels[:k] + [InlineFrag(cond, inner)]
            op.sel = sels
        else:
            op.sel = self.gen_selset(op.root_type, self.max_depth)
        if st.chance(1, 3, "named"):
            op.name = "Main"
        if st.chance(1, 6, "extra_op"):
            op.name = "Main"
            op.extra_op = True
            op.extra_first = bool(st.below(2, "extra_first"))
            op.operation_name = "Main"
        elif op.name and st.chance(1, 2, "opname"):
            op.operation_name = "Main"
        resolve_op(op, self.spec)
        return op

    def revary(self, st):
        """Re-draw the values sent for the operation's variables (same
        document, other variables) and recompute every expectation that
        depends on them."""
        for v in self.op.vars.values():
            nonnull = v.tstr.endswith("!")
            if v.is_dir:
                truth = bool(st.below(2, "dir_truth"))
                if v.default_lit is None or st.chance(1, 2, "dir_provide"):
                    v.provided, v.json, v.py = True, truth, truth
                else:
                    v.provided, v.json, v.py = False, None, None
                continue
            choice = st.weighted((3, 1, 1), "var_state")
            # 0 provided with a value, 1 not provided, 2 provided null
            if nonnull and v.default_lit is None:
                choice = 0
            if choice == 2 and nonnull:
                choice = 0
            if choice == 0:
                lit, js, py = self._value(v.tref, st)
                v.provided, v.json, v.py = True, js, py
            elif choice == 1:
                v.provided, v.json, v.py = False, None, None
            else:
                v.provided, v.json, v.py = True, None, None
        resolve_op(self.op, self.spec)


def _walk_selections(op):
    stack = [op.sel] + [sels for _, sels in op.fragments.values()]
    while stack:
        sels = stack.pop()
        for s_ in sels:
            yield s_
            if s_.kind in ("field", "inline") and s_.sel:
                stack.append(s_.sel)


def resolve_op(op, spec):
    """Compute, from the current variable values, the resolver-side kwargs of
    every field selection and the truth of every directive condition."""
    vars_ = op.vars
    for s_ in _walk_selections(op):
        for d in s_.dirs:
            if d.var is not None:
                v = vars_[d.var]
                d.truth = v.py if v.provided else v.default_py
        if s_.kind != "field" or s_.name not in spec.fields:
            continue
        fdef = spec.fields[s_.name]
        kw = {}
        argerr = False
        defaulted = []
        for a in fdef.args:
            src = s_.argspec.get(a.name)
            if src is None:
                defaulted.append(a)
                continue
            if src[0] == "lit":
                kw[a.name] = src[1]
                continue
            v = vars_[src[1]]
            if src[0] == "objvar":
                obj = dict(src[2])
                obj["a"] = v.py
                obj["d"] = 10  # left out of the literal: the default
                kw[a.name] = [obj] if src[3] else obj
                continue
            if src[0] == "nnlistvar":
                if v.provided and v.py is None:
                    argerr = True
                else:
                    kw[a.name] = [v.py if v.provided else v.default_py]
                continue
            if v.provided:
                kw[a.name] = v.py
            elif v.default_lit is not None:
                kw[a.name] = v.default_py
            else:
                defaulted.append(a)
        s_.kwargs = kw
        s_.argerr = argerr
        s_.defaulted = tuple(defaulted)


def gql_kwargs(spec, kwargs):
    """Resolver keyword arguments back under their GraphQL names.  A keyword
    that should have arrived under its python name but did not is kept apart
    (so that it cannot pass for the right one)."""
    if not spec.pyname_args:
        return kwargs
    out = {}
    for k, v in kwargs.items():
        if k.startswith("py_") and k[3:] in spec.pyname_args:
            out[k[3:]] = v
        elif k in spec.pyname_args:
            out["not-the-python-name:" + k] = v
        else:
            out[k] = v
    return out


def effective_kwargs(spec, tname, node):
    """Resolver-side kwargs of ``node`` when resolved on object type
    ``tname`` (argument defaults are those declared on that type)."""
    if not node.defaulted:
        return node.kwargs
    kw = dict(node.kwargs)
    for a in node.defaulted:
        has, py, _lit = spec.arg_default(tname, node.name, a)
        if has:
            kw[a.name] = py
    return kw


# --------------------------------------------------------------------------
# Renderer -- records (line, column) of every field token
# --------------------------------------------------------------------------
class _Out:
    def __init__(self, multiline, newline="\n"):
        self.parts = []
        self.line = 1
        self.col = 1
        self.multiline = multiline
        self.indent = 0
        self.newline = newline

    def w(self, s):
        self.parts.append(s)
        nl = s.count("\n")
        if nl:
            self.line += nl
            self.col = len(s) - s.rfind("\n")
        else:
            self.col += len(s)

    def sep(self):
        if self.multiline:
            self.w(self.newline + "  " * self.indent)
        else:
            self.w(" ")


def render(op, layout=0, frags_first=False):
    """Render the OpSpec to text.  layout 0 = single line, 1 = indented,
    2 = indented with commas and a leading comment, 3 = indented with CRLF
    line endings (one line terminator per the specification)."""
    o = _Out(layout != 0, "\r\n" if layout == 3 else "\n")
    if layout == 2:
        o.w("# generated\n")

    def dirs(ds):
        for d in ds:
            o.w(" @%s(if: %s)" % (d.kind, d.text))

    def selset(sels):
        o.w("{")
        o.indent += 1
        for s in sels:
            o.sep()
            if s.kind == "field":
                s.pos = (o.line, o.col)
                if s.alias:
                    o.w("%s: " % s.alias)
                o.w(s.name)
                if s.args:
                    o.w("(%s)" % ", ".join("%s: %s" % a for a in s.args))
                dirs(s.dirs)
                if s.sel is not None:
                    o.w(" ")
                    selset(s.sel)
            elif s.kind == "inline":
                o.w("...")
                if s.cond:
                    o.w(" on %s" % s.cond)
                dirs(s.dirs)
                o.w(" ")
                selset(s.sel)
            else:
                o.w("...%s" % s.frag)
                dirs(s.dirs)
            if layout == 2:
                o.w(",")
        o.indent -= 1
        o.sep()
        o.w("}")

    head = ""
    if op.kind != "query" or op.name or op.vardefs:
        head = op.kind
        if op.name:
            head += " " + op.name
        if op.vardefs:
            vs = []
            for name, t, dflt in op.vardefs:
                v = "$%s: %s" % (name, t)
                if dflt is not None:
                    v += " = %s" % dflt
                vs.append(v)
            head += "(%s)" % ", ".join(vs)
        head += " "
    def fragments(trailing):
        for name, (cond, sels) in op.fragments.items():
            if not trailing:
                o.w(o.newline if o.multiline else " ")
            o.w("fragment %s on %s " % (name, cond))
            selset(sels)
            if trailing:
                o.w(o.newline if o.multiline else " ")

    if op.extra_op and op.extra_first:
        o.w(getattr(op, "extra_text", None) or "query Other { __typename }")
        o.w(o.newline if o.multiline else " ")
    if frags_first:
        # fragment definitions may precede the operation that uses them
        fragments(True)
    o.w(head)
    selset(op.sel)
    if not frags_first:
        fragments(False)
    if op.extra_op and not op.extra_first:
        o.w(o.newline if o.multiline else " ")
        o.w(getattr(op, "extra_text", None) or "query Other { __typename }")
    op.text = "".join(o.parts)
    return op.text
