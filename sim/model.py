"""Reference execution model.  Shares no code with py-gql.

Implements CollectFields / ExecuteSelectionSet / CompleteValue over the
generator's own operation tree and schema spec, with py-gql's *documented*
null semantics as stated in property C04: a resolver error or a null in a
non-null position yields null at exactly that position plus one error with
that response path; siblings are not disturbed (no null propagation).
"""
from .workload import ENUM_VALUES, effective_kwargs, excluded, named
from .world import MAP_PATH, MapObj, obj_type

_ENUM_NAME = {internal: name for name, internal in ENUM_VALUES}


class Expected:
    __slots__ = ("data", "errors", "resolved", "invoked", "crash",
                 "positions", "root_keys", "merged_groups", "frag_applied",
                 "frag_rejected", "max_list", "root_spans", "arg_errors",
                 "uncalled", "divergent_groups", "enum_fields", "gen_sites",
                 "lazy_failed", "invoked_defs")

    def __init__(self):
        self.data = None
        self.errors = []     # [{"path","kind","message","first","group","ext"}]
        self.resolved = []   # field paths that get field hooks, in order
        self.invoked = []    # field paths whose synthetic resolver body runs
        self.invoked_defs = {}  # ... and their (type name, field name)
        self.crash = False   # an injected Boom lies on a resolved field
        self.positions = []  # [(path, "field"|"item")] fault candidates
        self.root_keys = []
        self.merged_groups = 0
        self.frag_applied = 0
        self.frag_rejected = 0
        self.max_list = 0
        self.arg_errors = 0
        self.uncalled = set()  # resolved paths whose resolver is not called
        self.divergent_groups = 0  # same first node, other merged group
        self.enum_fields = []  # paths of (non-list) enum-typed fields
        # list-of-object fields whose value is produced lazily (a generator)
        # and holds at least one item: candidates for "fails mid-iteration"
        self.gen_sites = []
        self.lazy_failed = []  # ... and those where that fault is placed


def serialize_leaf(base, v):
    if base == "Int":
        return int(v)
    if base == "Float":
        return float(v)
    if base == "String":
        return str(v)
    if base == "Boolean":
        return bool(v)
    if base == "ID":
        return str(v)
    if base == "Color":
        return _ENUM_NAME[v]
    if base == "Stamp":
        # the custom scalar has no representation for some raw values:
        # its serialiser hands back null for them
        return None if v % 13 == 0 else "S:%r" % (v,)
    raise AssertionError(base)


def error_message(path):
    return "E@" + "/".join(str(p) for p in path)


def error_extensions(path):
    return {"code": "X%d" % len(path), "at": [str(p) for p in path]}


class Model:
    def __init__(self, spec, op, world):
        self.spec = spec
        self.op = op
        self.world = world
        self.exp = Expected()
        self.seq = 0
        self._groups = {}

    # -- CollectFields ----------------------------------------------------
    def collect(self, tname, selections, visited, out):
        spec = self.spec
        for s in selections:
            if excluded(s.dirs):
                continue
            if s.kind == "field":
                out.setdefault(s.key, []).append(s)
            elif s.kind == "inline":
                if self._applies(s.cond, tname):
                    self.exp.frag_applied += 1
                    self.collect(tname, s.sel, visited, out)
                else:
                    self.exp.frag_rejected += 1
            else:
                if s.frag in visited:
                    continue
                visited.add(s.frag)
                cond, sels = self.op.fragments[s.frag]
                if self._applies(cond, tname):
                    self.exp.frag_applied += 1
                    self.collect(tname, sels, visited, out)
                else:
                    self.exp.frag_rejected += 1
        return out

    def _applies(self, cond, tname):
        if cond is None or cond == tname:
            return True
        return tname in self.spec.possible.get(cond, ())

    # -- ExecuteSelectionSet --------------------------------------------------
    def execute(self, tname, obj, selections, path, serial=False):
        grouped = self.collect(tname, selections, set(), {})
        result = {}
        for key, nodes in grouped.items():
            if len(nodes) > 1:
                self.exp.merged_groups += 1
            result[key] = self.field(tname, obj, key, nodes, path + (key,),
                                     serial)
        return result

    def field(self, tname, obj, key, nodes, path, serial):
        exp = self.exp
        node = nodes[0]
        exp.resolved.append(path)
        if node.name == "__typename":
            return tname
        if node.name == "__schema":
            # fixed shape: __schema { queryType { name } }
            exp.resolved.append(path + ("queryType",))
            exp.resolved.append(path + ("queryType", "name"))
            return {"queryType": {"name": self.spec.query}}
        if node.name == "__type":
            t = node.kwargs["name"]
            if t not in self.spec.objects and t not in self.spec.interfaces \
                    and t not in self.spec.unions:
                return None  # "returns null if no such type" (spec 4.2)
            exp.resolved.append(path + ("name",))
            exp.resolved.append(path + ("kind",))
            kind = ("OBJECT" if t in self.spec.objects else
                    "INTERFACE" if t in self.spec.interfaces else "UNION")
            return {"name": t, "kind": kind}
        if node.argerr:
            # assembling the arguments fails: a field error, the resolver is
            # never invoked (field hooks still fire, start and end)
            exp.errors.append({
                "path": path, "kind": "coercion", "message": None,
                "first": node.pos,
                "group": frozenset(n.pos for n in nodes), "ext": None,
            })
            exp.arg_errors += 1
            exp.uncalled.add(path)
            return None
        fdef = self.spec.fields[node.name]
        if ((self.spec.objrepr == "map" and isinstance(obj, MapObj))
                or (self.spec.objrepr == "sdict" and isinstance(obj, dict))) \
                and self.spec.behaviours.get((tname, node.name)) == "default":
            # served by the default resolver's key lookup on a mapping-shaped
            # parent: no resolver body runs, nothing can be injected there
            exp.uncalled.add(path)
            raw = self.world.field_value(obj, tname, node.name, {}, MAP_PATH,
                                         None)
            return self.complete(fdef.type, raw, path, nodes, faultable=False)
        exp.invoked.append(path)
        exp.invoked_defs[tuple(path)] = (tname, node.name)
        exp.positions.append((path, "field"))
        seq = None
        if serial:
            self.seq += 1
            seq = self.seq
        fault = self.world.faults.get(path)
        if fault == "generr":
            exp.lazy_failed.append(path)
        if fault in ("err", "errx", "errs", "errpp", "errsh", "generr"):
            exp.errors.append({
                "path": path, "kind": "err",
                "message": "E@shared" if fault == "errsh"
                else error_message(path),
                "first": node.pos,
                "group": frozenset(n.pos for n in nodes),
                "ext": error_extensions(path) if fault == "errx" else None,
            })
            return None
        if fdef.type[0] != "L" and not (
                fdef.type[0] == "NN" and fdef.type[1][0] == "L") and \
                named(fdef.type) == "Color":
            exp.enum_fields.append(path)
        if fault is not None and (fault.startswith("boom")
                                  or fault == "badenum"):
            # (badenum: the resolver hands back a value that is no member of
            # the enum -- a developer error, no response is specified)
            exp.crash = True
            return None
        raw = self.world.field_value(
            obj, tname, node.name, effective_kwargs(self.spec, tname, node),
            path, seq)
        if self.spec.behaviours.get((tname, node.name)) == "gen" and \
                isinstance(raw, list) and raw and \
                self.spec.is_composite(named(fdef.type)) and \
                any(x is not None for x in raw):
            exp.gen_sites.append(path)
        return self.complete(fdef.type, raw, path, nodes)

    # -- CompleteValue ------------------------------------------------------
    def complete(self, t, value, path, nodes, faultable=True):
        exp = self.exp
        if t[0] == "NN":
            r = self.complete(t[1], value, path, nodes, faultable)
            if r is None:
                exp.errors.append({
                    "path": path, "kind": "nonnull", "message": None,
                    "first": nodes[0].pos,
                    "group": frozenset(n.pos for n in nodes), "ext": None,
                })
            return r
        if value is None:
            return None
        if t[0] == "L":
            items = list(value)
            if len(items) > exp.max_list:
                exp.max_list = len(items)
            out = []
            for i, item in enumerate(items):
                if faultable:
                    exp.positions.append((path + (i,), "item"))
                out.append(self.complete(t[1], item, path + (i,), nodes,
                                         faultable))
            return out
        base = t[1]
        if self.spec.is_composite(base):
            concrete = obj_type(value)
            gk = (concrete, id(nodes[0]))
            sig = tuple(id(n) for n in nodes)
            if self._groups.setdefault(gk, sig) != sig:
                # the same first node stands for different merged groups in
                # one request (reached through different concrete parents)
                exp.divergent_groups += 1
            sels = []
            for n in nodes:
                if n.sel:
                    sels.extend(n.sel)
            return self.execute(concrete, value, sels, path)
        return serialize_leaf(base, value)

    def run(self, root_value=None):
        op = self.op
        serial = op.kind == "mutation"
        self.exp.data = self.execute(op.root_type, root_value, op.sel, (),
                                     serial=serial)
        self.exp.root_keys = list(self.exp.data.keys())
        return self.exp


def expected_response(spec, op, world, root_value=None):
    return Model(spec, op, world).run(root_value)
