"""Process pool, budgets, determinism self-test, shrinking, replay files,
known-finding matching and evidence writing -- shared by every check.

Exit codes: 0 property held on everything explored (KNOWN-FINDING lines are
allowed), 1 ``VIOLATION property=<id> replay=<path>``, 3 ``HARNESS-ERROR``
(timeouts, nondeterminism, excessive discards, wrong import tree, ...).  A
wall-timeout kill can never produce exit 0.
"""
import concurrent.futures as cf
import faulthandler
import hashlib
import json
import multiprocessing
import os
import subprocess
import sys
import time
import traceback

from .draws import Draws, derive_seed, shrink

VERIF = os.path.dirname(os.path.dirname(os.path.abspath(__file__)))
REPO = os.environ.get("VERIF_REPO", "/repo")
PY = sys.executable


class HarnessFailure(Exception):
    pass


def engine_for(prop):
    if prop in ("C04", "C08", "C09", "C10", "C16"):
        from . import execsim
        return execsim
    if prop == "C17":
        from . import subsim
        return subsim
    if prop in ("C12", "C13", "C14"):
        from .hist import engine as hist_engine
        return hist_engine
    raise SystemExit("unknown property %s" % prop)


def case_seed(base_seed, prop, i):
    return derive_seed(base_seed, prop, i)


def run_one(prop, tier, base_seed, i):
    eng = engine_for(prop)
    d = Draws.from_seed(case_seed(base_seed, prop, i))
    res = run_isolated(eng, d, prop, tier)
    return d, res


def run_isolated(eng, d, prop, tier):
    """One case = one process lifetime (sim/forkcase.py).  The hist engine
    forks by itself (it needs its prepared state in the child)."""
    if eng.__name__.endswith("hist.engine") or \
            os.environ.get("VERIF_NO_FORK"):
        return eng.run_case(d, prop, tier)
    from .forkcase import ChildFailure, run_in_child
    try:
        return run_in_child(lambda: eng.run_case(d, prop, tier), d)
    except ChildFailure as err:
        raise HarnessFailure(str(err))


def _work(args):
    """Worker: run cases [i0, i1).  Returns a picklable summary."""
    prop, tier, base_seed, i0, i1, want_digests = args
    faulthandler.dump_traceback_later(600, exit=True)
    stats = {}
    sigs_nt = set()
    sigs_all = set()
    viols = []
    known = load_known()
    known_seen = {}
    n_known = 0
    samples = []
    digests = []
    errors = []
    for i in range(i0, i1):
        try:
            d, res = run_one(prop, tier, base_seed, i)
        except Exception as err:  # noqa: B902 - classified as harness error
            errors.append((i, "".join(traceback.format_exception(err))[-3000:]))
            continue
        for k, v in res.stats.items():
            stats[k] = stats.get(k, 0) + v
        stats["cases"] = stats.get("cases", 0) + 1
        if res.discard:
            stats["cases_discarded"] = stats.get("cases_discarded", 0) + 1
        for sig, nt in res.signatures:
            sigs_all.add(sig)
            if nt:
                sigs_nt.add(sig)
        for v in res.violations:
            if prop in v.props:
                vj = v.to_json()
                k = known_match(known, prop, vj)
                if k is not None:
                    # a listed known finding: counted, reported once, and
                    # never allowed to crowd an unlisted violation out
                    n_known += 1
                    known_seen[(vj["oracle"], tuple(vj["key"]))] = k["what"]
                else:
                    viols.append((i, vj, d.recorded()))
        if res.samples is not None and len(samples) < 2:
            samples.append(res.samples)
        if want_digests:
            digests.append((i, res.digest))
    faulthandler.cancel_dump_traceback_later()
    return {
        "stats": stats, "sigs_nt": sigs_nt, "sigs_all": sigs_all,
        "viols": viols[:20], "nviols": len(viols), "samples": samples,
        "known_seen": known_seen, "n_known": n_known,
        "digests": digests, "errors": errors[:5], "nerrors": len(errors),
    }


def digests_cli(prop, tier, base_seed, n):
    """Fresh-interpreter half of the determinism self-test.  The cases are
    run in REVERSE order, so that a result that depends on what the process
    executed earlier (warm caches, first-call paths) shows up as a digest
    mismatch against the forward in-process passes."""
    out = {}
    for i in reversed(range(n)):
        _, res = run_one(prop, tier, base_seed, i)
        out[i] = res.digest
    print(json.dumps([(i, out[i]) for i in range(n)]))


def determinism_selftest(prop, tier, base_seed, n):
    """Same seeds twice in this process and once in a fresh interpreter with a
    different PYTHONHASHSEED: event-log digests must be identical."""
    a = [run_one(prop, tier, base_seed, i)[1].digest for i in range(n)]
    b = [run_one(prop, tier, base_seed, i)[1].digest for i in range(n)]
    if a != b:
        bad = [i for i in range(n) if a[i] != b[i]]
        raise HarnessFailure("nondeterminism in-process at run indices %r"
                             % bad[:5])
    env = dict(os.environ)
    env["PYTHONHASHSEED"] = "12345" if env.get("PYTHONHASHSEED") != "12345" \
        else "54321"
    env["VERIF_SEED"] = str(base_seed)
    p = subprocess.run(
        [PY, "-B", os.path.join(VERIF, "check.py"), prop, "--tier", tier,
         "--digests", str(n)],
        env=env, capture_output=True, text=True, timeout=600,
    )
    if p.returncode != 0:
        raise HarnessFailure("digest subprocess failed: %s" % p.stderr[-2000:])
    c = [d for _, d in json.loads(p.stdout.strip().splitlines()[-1])]
    if a != c:
        bad = [i for i in range(n) if a[i] != c[i]]
        raise HarnessFailure(
            "nondeterminism across interpreters (PYTHONHASHSEED) at %r"
            % bad[:5])
    return n


def load_known():
    path = os.path.join(VERIF, "known_findings.json")
    if not os.path.exists(path):
        return []
    with open(path) as f:
        return json.load(f).get("findings", [])


def known_match(known, prop, v):
    for k in known:
        if (k.get("status") == "known" and k["property"] == prop
                and k["oracle_id"] == v["oracle"]
                and list(k["key"]) == list(v["key"])):
            return k
    return None


def repo_state():
    try:
        head = subprocess.run(["git", "-C", REPO, "rev-parse", "HEAD"],
                              capture_output=True, text=True).stdout.strip()
        diff = subprocess.run(["git", "-C", REPO, "diff", "HEAD"],
                              capture_output=True, text=True).stdout
        return head, hashlib.sha256(diff.encode()).hexdigest()[:16]
    except Exception:  # noqa: B902
        return "?", "?"


def reproduce(prop, tier, recorded, ident, verbose=False):
    """Re-execute from a draw recording; returns (violation json | None,
    digest, sample)."""
    eng = engine_for(prop)
    d = Draws.replay(recorded)
    try:
        res = run_isolated(eng, d, prop, tier)
    except Exception:  # noqa: B902 - a candidate that breaks the harness
        if verbose:
            traceback.print_exc()
        return None, None, None
    for v in res.violations:
        if prop in v.props and (v.oracle, list(v.key)) == ident:
            return v.to_json(), res.digest, res.samples
    return None, res.digest, res.samples


def minimise(prop, tier, recorded, ident, budget=1200, seconds=60):
    deadline = time.monotonic() + seconds

    def still_fails(cand):
        v, _, _ = reproduce(prop, tier, cand, ident)
        return v is not None

    small, calls = shrink(recorded, still_fails, budget=budget,
                          deadline=deadline, clock=time.monotonic)
    return small, calls


def write_replay(prop, tier, base_seed, index, vjson, recorded, calls):
    ident = (vjson["oracle"], list(vjson["key"]))
    v2, digest, sample = reproduce(prop, tier, recorded, ident)
    head, diffhash = repo_state()
    name = "%s-%s-%d.json" % (
        prop, hashlib.sha256(json.dumps(
            [ident, recorded], sort_keys=True).encode()).hexdigest()[:10],
        base_seed)
    path = os.path.join(VERIF, "replays", name)
    os.makedirs(os.path.dirname(path), exist_ok=True)
    with open(path, "w") as f:
        json.dump({
            "property": prop, "tier": tier, "oracle": vjson["oracle"],
            "key": vjson["key"], "detail": (v2 or vjson)["detail"],
            "base_seed": base_seed, "run_index": index,
            "shrink_reexecutions": calls,
            "draws": recorded, "digest": digest, "workload": sample,
            "repo_head": head, "repo_diff": diffhash,
        }, f, indent=1, default=str)
    return path


def tree_guard():
    """py_gql must come from the tree under test, not from a fallback."""
    import py_gql
    src = os.path.realpath(os.path.dirname(py_gql.__file__))
    want = os.path.realpath(os.path.join(
        os.environ.get("VERIF_REPO_SRC", os.path.join(REPO, "src")),
        "py_gql"))
    if src != want:
        print("HARNESS-ERROR py_gql imported from %s, expected %s"
              % (src, want))
        return False
    return True


def replay_cli(prop, path):
    if not tree_guard():
        return 3
    with open(path) as f:
        rp = json.load(f)
    ident = (rp["oracle"], list(rp["key"]))
    v, digest, _ = reproduce(prop, rp.get("tier", "quick"), rp["draws"],
                             ident, verbose=True)
    if v is None:
        print("replay: violation %s %s not reproduced on this tree"
              % (rp["oracle"], rp["key"]))
        return 0
    if rp.get("digest") and digest != rp["digest"]:
        head, diffhash = repo_state()
        if (head, diffhash) == (rp.get("repo_head"), rp.get("repo_diff")):
            print("HARNESS-ERROR nondeterministic replay (digest differs)")
            return 3
    print("replay: %s %s: %s" % (v["oracle"], v["key"], v["detail"]))
    print("VIOLATION property=%s replay=%s" % (prop, path))
    return 1


QUICK_RUNS = {
    "C04": 1200, "C08": 800, "C09": 1400, "C10": 2400, "C16": 1400,
    "C17": 8000, "C12": 1200, "C13": 5000, "C14": 1200,
}
CHUNK = {"C12": 20}


def main_check(prop, tier, runs=None, budget_s=None):
    t0 = time.monotonic()
    base_seed = int(os.environ.get("VERIF_SEED", "0"))
    print("VERIF_SEED=%d property=%s tier=%s" % (base_seed, prop, tier))
    sys.stdout.flush()
    if not tree_guard():
        return 3
    eng = engine_for(prop)
    if hasattr(eng, "prepare"):
        eng.prepare(prop, tier, base_seed)
    nworkers = int(os.environ.get("VERIF_WORKERS", "0")) or min(
        16, os.cpu_count() or 1)
    try:
        ndet = determinism_selftest(
            prop, tier, base_seed,
            int(os.environ.get("VERIF_DET_N", "0"))
            or (24 if tier == "quick" else 100))
    except HarnessFailure as err:
        print("HARNESS-ERROR %s" % err)
        return 3
    except subprocess.TimeoutExpired:
        print("HARNESS-ERROR determinism self-test timed out")
        return 3
    if runs is None and tier == "quick":
        runs = QUICK_RUNS.get(prop, 1000)
    if budget_s is None and tier == "thorough" and runs is None:
        budget_s = float(os.environ.get("VERIF_BUDGET_S", "600"))
    chunk = CHUNK.get(prop, 25)
    agg = {"stats": {}, "sigs_nt": set(), "sigs_all": set(), "viols": [],
           "nviols": 0, "samples": [], "errors": [], "nerrors": 0,
           "known_seen": {}, "n_known": 0}
    ctx = multiprocessing.get_context("fork")
    next_i = 0
    hard_deadline = t0 + (budget_s * 3 + 600 if budget_s else 1500)
    with cf.ProcessPoolExecutor(nworkers, mp_context=ctx) as ex:
        pending = set()

        def more():
            if runs is not None:
                return next_i < runs
            return time.monotonic() - t0 < budget_s

        while True:
            while len(pending) < nworkers * 2 and more():
                i1 = next_i + chunk if runs is None else min(
                    runs, next_i + chunk)
                pending.add(ex.submit(
                    _work, (prop, tier, base_seed, next_i, i1, False)))
                next_i = i1
            if not pending:
                break
            done, pending = cf.wait(
                pending, timeout=max(1.0, hard_deadline - time.monotonic()),
                return_when=cf.FIRST_COMPLETED)
            if not done:
                for p in pending:
                    p.cancel()
                print("HARNESS-ERROR wall timeout waiting for workers")
                os._exit(3)
            for fut in done:
                try:
                    r = fut.result()
                except Exception as err:  # noqa: B902
                    print("HARNESS-ERROR worker died: %r" % (err,))
                    os._exit(3)
                for k, v in r["stats"].items():
                    agg["stats"][k] = agg["stats"].get(k, 0) + v
                agg["sigs_nt"] |= r["sigs_nt"]
                agg["sigs_all"] |= r["sigs_all"]
                agg["viols"].extend(r["viols"])
                agg["nviols"] += r["nviols"]
                agg["known_seen"].update(r["known_seen"])
                agg["n_known"] += r["n_known"]
                agg["nerrors"] += r["nerrors"]
                agg["errors"].extend(r["errors"])
                if len(agg["samples"]) < 3:
                    agg["samples"].extend(r["samples"])
    stats = agg["stats"]
    cases = stats.get("cases", 0)
    if agg["nerrors"]:
        print("HARNESS-ERROR %d case(s) raised inside the harness; first:\n%s"
              % (agg["nerrors"], agg["errors"][0][1]))
        return 3
    if cases == 0:
        print("HARNESS-ERROR no case was executed")
        return 3
    discarded = stats.get("cases_discarded", 0)
    if discarded * 20 > cases:
        print("HARNESS-ERROR discard rate %d/%d above 5%%"
              % (discarded, cases))
        return 3

    # ---- violations: known findings, then the first unlisted one ----------
    agg["viols"].sort(key=lambda t: (t[0], t[1]["oracle"], t[1]["key"]))
    for ident in sorted(agg["known_seen"]):
        print("KNOWN-FINDING: property=%s %s [oracle=%s key=%s]" % (
            prop, agg["known_seen"][ident], ident[0],
            "/".join(str(x) for x in ident[1])))
    n_known = agg["n_known"]
    unlisted = agg["viols"][0] if agg["viols"] else None
    wall = time.monotonic() - t0
    exit_code = 0
    replay_path = None
    if unlisted is not None:
        i, v, rec = unlisted
        ident = (v["oracle"], list(v["key"]))
        small, calls = minimise(prop, tier, rec, ident)
        replay_path = write_replay(prop, tier, base_seed, i, v, small, calls)
        # confirm in a fresh interpreter
        p = subprocess.run(
            [PY, "-B", os.path.join(VERIF, "check.py"), prop, "--replay",
             replay_path], capture_output=True, text=True, timeout=300)
        if p.returncode != 1:
            # fall back to the unminimised recording before giving up
            note = (p.stdout + p.stderr)[-1500:]
            os.remove(replay_path)
            replay_path = write_replay(prop, tier, base_seed, i, v, rec, 0)
            p = subprocess.run(
                [PY, "-B", os.path.join(VERIF, "check.py"), prop, "--replay",
                 replay_path], capture_output=True, text=True, timeout=300)
            if p.returncode != 1:
                print("HARNESS-ERROR replay did not reproduce in a fresh "
                      "process (exit %d): %s\n-- minimised attempt: %s" % (
                          p.returncode, (p.stdout + p.stderr)[-1500:], note))
                return 3
            print("note: the minimised recording did not reproduce in a "
                  "fresh process; reporting the unminimised one")
        print("violation: %s %s: %s" % (v["oracle"], v["key"], v["detail"]))
        print("VIOLATION property=%s replay=%s" % (prop, replay_path))
        exit_code = 1
    wall = time.monotonic() - t0
    write_evidence(prop, tier, base_seed, agg, wall, ndet, nworkers,
                   agg["nviols"], n_known, eng)
    print("%s: cases=%d runs=%d distinct_schedules=%d wall=%.1fs "
          "violations=%d known=%d" % (
              prop, cases, stats.get("runs", cases), len(agg["sigs_all"]),
              wall, agg["nviols"], n_known))
    return exit_code


def write_evidence(prop, tier, base_seed, agg, wall, ndet, nworkers,
                   nviol, nknown, eng):
    stats = agg["stats"]
    cases = stats.get("cases", 0)
    runs = stats.get("runs", cases)
    fired = {k[6:]: v for k, v in stats.items() if k.startswith("fired:")}
    placed = {k[7:]: v for k, v in stats.items() if k.startswith("placed:")}
    probes = {k[6:]: v for k, v in stats.items() if k.startswith("probe:")}
    other = {k: v for k, v in stats.items()
             if not k.startswith(("fired:", "placed:", "probe:"))}
    meta = eng.evidence_meta(prop) if hasattr(eng, "evidence_meta") else {}
    ev = {
        "property_id": prop,
        "tier": tier,
        "seed": base_seed,
        "level": "exploration",
        "coverage": {
            "evaluations": int(runs),
            "distinct_nontrivial": len(agg["sigs_nt"]),
            "rule": meta.get("rule", ""),
            "samples": agg["samples"][:3],
            "cases": cases,
            "distinct_signatures_all": len(agg["sigs_all"]),
            "runs_per_hour": int(runs / wall * 3600) if wall > 0 else 0,
            "simulated_seconds": stats.get("sim_seconds_x1000", 0) / 1000.0,
            "faults_fired": fired,
            "faults_placed": placed,
            "probes": probes,
            "counters": other,
            "determinism_selftest_seeds": ndet,
            "workers": nworkers,
            "real_vs_stub": meta.get("real_vs_stub", {}),
            "known_findings_hit": nknown,
        },
        "assumptions": meta.get("assumptions", []),
        "wall_s": round(wall, 2),
        "violations": int(nviol),
    }
    evdir = "evidence"
    alt = os.environ.get("VERIF_REPO_SRC")
    if alt and os.path.realpath(alt) != os.path.realpath(
            os.path.join(REPO, "src")):
        # a scratch copy is under test (seeded change, mutant): the committed
        # evidence must only ever describe /repo itself
        evdir = os.path.join("scratch", "evidence-other-tree")
    path = os.path.join(VERIF, evdir, "%s.json" % prop)
    os.makedirs(os.path.dirname(path), exist_ok=True)
    with open(path, "w") as f:
        json.dump(ev, f, indent=1, default=str)
