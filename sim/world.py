"""The synthetic world behind the resolvers: a *pure* function from
(world seed, parent object id, field, resolver kwargs) to a python value.

Because the world is pure, the expected value of every field is independent of
the order in which resolvers are invoked -- except mutation root fields, whose
object ids include the per-request mutation sequence number, so that data
changes if serial order is broken.

Faults (``faults``: {response path tuple: kind}) are applied here for the
``null`` kind (a None at that response position, possibly a non-null one) and
in the resolver body for ``err`` / ``errx`` / ``boom``.
"""
import collections.abc
import decimal
import zlib

from .workload import ENUM_VALUES, named


def H(*parts):
    return zlib.crc32(repr(parts).encode("utf-8"))


class Obj:
    """Attribute-based object value (exercises default_resolver's getattr
    branch and default type resolution through ``__typename__``)."""

    __slots__ = ("__typename__", "__id__", "_fields")

    def __init__(self, typename, oid, fields):
        object.__setattr__(self, "__typename__", typename)
        object.__setattr__(self, "__id__", oid)
        object.__setattr__(self, "_fields", fields)

    def __getattr__(self, name):
        # default_resolver: getattr(root, python_name, None) -> callable
        # -> called with (context, info, **args)
        try:
            return self._fields[name]
        except KeyError:
            raise AttributeError(name)

    def __repr__(self):
        return "Obj(%s,%s)" % (self.__typename__, self.__id__)


class ExcObj(Exception):
    """The same, for applications that hand *exception instances* around as
    values ("errors as data": a NotFound object in a union).  Returning one is
    not raising it."""

    def __init__(self, typename, oid, fields):
        Exception.__init__(self, "%s:%s" % (typename, oid))
        self.__dict__["__typename__"] = typename
        self.__dict__["__id__"] = oid
        self.__dict__["_fields"] = fields

    def __getattr__(self, name):
        try:
            return self.__dict__["_fields"][name]
        except KeyError:
            raise AttributeError(name)

    def __repr__(self):
        return "ExcObj(%s,%s)" % (self.__typename__, self.__id__)


MAP_PATH = ("<served from the mapping itself>",)


class MapObj(collections.abc.Mapping):
    """Mapping-shaped object value that is NOT a dict (a row proxy, a
    ChainMap-like view).  The library's default resolver serves such parents
    by key lookup and hands back what it finds, without calling it: fields
    left to the default resolver are computed here, on access, with neither
    response path nor arguments (the workload only leaves argument-less
    fields to it)."""

    def __init__(self, world, typename, oid, keys):
        self.__typename__ = typename
        self.__id__ = oid
        self._world = world
        self._keys = tuple(keys)

    def __getitem__(self, key):
        if key == "__typename__":
            return self.__typename__
        if key == "__id__":
            return self.__id__
        if key in self._keys:
            return self._world.field_value(
                {"__id__": self.__id__}, self.__typename__, key, {},
                MAP_PATH, None)
        raise KeyError(key)

    def __iter__(self):
        return iter(("__typename__", "__id__") + self._keys)

    def __len__(self):
        return 2 + len(self._keys)

    def __repr__(self):
        return "MapObj(%s,%s)" % (self.__typename__, self.__id__)


class FalsyObj(Obj):
    """An application object that is an empty collection of its own (falsy):
    still an object, not a null."""
    __slots__ = ()

    def __len__(self):
        return 0

    def __repr__(self):
        return "FalsyObj(%s,%s)" % (self.__typename__, self.__id__)


def obj_type(o):
    return o["__typename__"] if isinstance(o, dict) else o.__typename__


def obj_id(o):
    if o is None:
        return "root"
    if isinstance(o, dict):
        return o["__id__"]
    if isinstance(o, (Obj, ExcObj, MapObj)):
        return o.__id__
    # subscription events: plain python values act as their own id
    return repr(o)


class World:
    def __init__(self, spec, seed, faults=None, make_default=None,
                 nonfinite=False):
        self.spec = spec
        self.seed = seed
        self.faults = faults or {}
        # factory for default-behaviour attribute callables (set by harness;
        # the model passes a dummy)
        self.make_default = make_default
        self.nonfinite = nonfinite

    # -- leaf values ----------------------------------------------------------
    def leaf(self, base, h):
        if base == "Int":
            if self.nonfinite and h % 7 == 0:
                # native ints the Int scalar cannot represent (a millisecond
                # timestamp, a 64-bit id)
                return (2 ** 31 + 5, -(2 ** 31) - 5, 1600000000000,
                        10 ** 20)[(h // 7) % 4]
            if h % 23 == 0:
                # a flag column read back as a Python bool: an Int field
                # answers 1 / 0 (an integer), never true / false
                return bool(h & 32)
            return (h % 2001) - 1000
        if base == "Float":
            if self.nonfinite and h % 5 == 0:
                # as floats, and in the other forms float() turns into one
                return (float("inf"), float("-inf"), float("nan"), "NaN",
                        "-Infinity", "1e999", decimal.Decimal("NaN"),
                        decimal.Decimal("Infinity"))[(h // 5) % 8]
            v = ((h % 4001) - 2000) / 4.0
            if h % 11 == 0:
                # equal in Python, distinct in JSON
                v = -0.0 if h & 1 else 0.0
            return v
        if base == "String":
            return ("s%d" % (h % 997), "", "hé \"q\"", "a\nb")[
                0 if h % 7 else (h // 7) % 4
            ]
        if base == "Boolean":
            return bool(h & 1)
        if base == "ID":
            # resolvers may hand back ints or strings for ID
            return (h % 500) if h & 1 else "id%d" % (h % 500)
        if base == "Color":
            return ENUM_VALUES[h % len(ENUM_VALUES)][1]
        if base == "Stamp":
            # an application-defined scalar takes whatever the application
            # hands it: ints, and a few floats / bools that compare equal to
            # small ints yet serialise differently
            v = h % 10000 if h % 3 else h % 40
            kind = (h >> 7) % 8
            if kind == 0:
                return float(v % 40)
            if kind == 1:
                return bool(v & 1)
            return v
        raise AssertionError(base)

    def make_object(self, tname, oid):
        spec = self.spec
        if spec.objrepr == "dict":
            return {"__typename__": tname, "__id__": oid}
        if spec.objrepr == "sdict":
            # a plain dict holding the leaf values of the fields left to the
            # default resolver; sparse: a null is as often a missing key
            d = {"__typename__": tname, "__id__": oid}
            for f in spec.objects[tname]["fields"]:
                if spec.behaviours.get((tname, f)) == "default":
                    v = self.field_value({"__id__": oid}, tname, f, {},
                                         MAP_PATH, None)
                    if v is None and zlib.crc32((oid + f).encode()) & 1:
                        continue
                    d[f] = v
            return d
        if spec.objrepr == "map":
            return MapObj(self, tname, oid, [
                f for f in spec.objects[tname]["fields"]
                if spec.behaviours.get((tname, f)) == "default"])
        fields = {}
        if self.make_default is not None:
            for f in spec.objects[tname]["fields"]:
                if spec.behaviours.get((tname, f)) == "default":
                    fields[f] = self.make_default(tname, f, oid)
        if zlib.crc32(oid.encode()) % 5 == 0:
            return ExcObj(tname, oid, fields)
        if zlib.crc32(oid.encode()) % 5 == 1:
            return FalsyObj(tname, oid, fields)
        return Obj(tname, oid, fields)

    def gen(self, t, idseed, path, nullable=True):
        """Value for type ref ``t`` at response ``path``."""
        if self.faults.get(path) == "null":
            return None
        if t[0] == "NN":
            return self.gen(t[1], idseed, path, nullable=False)
        h = H(self.seed, idseed)
        if nullable and (h % 8 == 0 or (path is MAP_PATH and h % 3 == 0)):
            # ordinary null in a nullable position (more of them among the
            # values a mapping-shaped parent stores)
            return None
        if t[0] == "L":
            n = (h >> 3) % 5
            if (h >> 9) % 12 == 0:
                n = 9 + (h >> 14) % 4  # now and then a longer list
            items = [
                self.gen(t[1], (idseed, i), path + (i,)) for i in range(n)
            ]
            if n >= 2 and (h >> 11) % 4 == 0:
                # the very same object listed twice ([alice, bob, alice]):
                # two response positions, one Python identity
                j = 1 + (h >> 13) % (n - 1)
                src = (h >> 17) % j
                if isinstance(items[src], (Obj, ExcObj, MapObj, dict)) and \
                        self.faults.get(path + (j,)) != "null":
                    items[j] = items[src]
            return items
        base = t[1]
        spec = self.spec
        if spec.is_composite(base):
            poss = spec.possible_types(base)
            concrete = poss[(h >> 5) % len(poss)]
            return self.make_object(concrete, "%s:%x" % (concrete, h))
        return self.leaf(base, h >> 3)

    def field_value(self, parent, tname, fname, kwargs, path, seq=None):
        fdef = self.spec.fields[fname]
        kw = tuple(sorted((k, _canon(v)) for k, v in kwargs.items()))
        idseed = (obj_id(parent), fname, kw, seq)
        return self.gen(fdef.type, idseed, tuple(path))


def _canon(v):
    if isinstance(v, dict):
        return tuple(sorted((k, _canon(x)) for k, x in v.items()))
    if isinstance(v, (list, tuple)):
        return tuple(_canon(x) for x in v)
    return (type(v).__name__, v)
