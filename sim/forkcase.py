"""One case = one process lifetime.

Every case runs in a freshly forked child of the worker, so that its result
cannot depend on what the worker ran before (module-level caches in the code
under test, memoised type objects, lingering threads) and a replay in a fresh
interpreter starts from the same state.  The child sends back the CaseResult
and the draw recording through a pipe.
"""
import os
import pickle
import select
import signal
import sys


class ChildFailure(Exception):
    pass


def run_in_child(fn, draws, timeout=300.0):
    """Run ``fn()`` (which consumes ``draws``) in a forked child; adopt the
    child's recording into ``draws`` and return its result."""
    r, w = os.pipe()
    sys.stdout.flush()
    sys.stderr.flush()
    pid = os.fork()
    if pid == 0:
        code = 0
        try:
            os.close(r)
            try:
                res = fn()
                payload = ("ok", res, draws.recorded())
                blob = pickle.dumps(payload, protocol=pickle.HIGHEST_PROTOCOL)
            except BaseException as err:  # noqa: B902
                import traceback
                blob = pickle.dumps(
                    ("error", "".join(traceback.format_exception(err)), None),
                    protocol=pickle.HIGHEST_PROTOCOL)
            with os.fdopen(w, "wb") as f:
                f.write(blob)
        except BaseException:  # noqa: B902
            code = 1
        finally:
            try:
                sys.stdout.flush()
                sys.stderr.flush()
            finally:
                os._exit(code)
    os.close(w)
    chunks = []
    try:
        while True:
            ready, _, _ = select.select([r], [], [], timeout)
            if not ready:
                os.kill(pid, signal.SIGKILL)
                os.waitpid(pid, 0)
                raise ChildFailure("case child timed out after %ds" % timeout)
            b = os.read(r, 1 << 16)
            if not b:
                break
            chunks.append(b)
    finally:
        os.close(r)
    os.waitpid(pid, 0)
    if not chunks:
        raise ChildFailure("case child produced no result")
    status, res, recorded = pickle.loads(b"".join(chunks))
    if status != "ok":
        raise ChildFailure("case failed in its child:\n%s" % res)
    draws.adopt(recorded)
    return res
