"""Synthetic peers of py-gql (resolvers, type resolvers, instrumentations,
middlewares) and the per-configuration drivers that run the *real*
``process_graphql_query`` on the simulated substrates.
"""
import zlib
import concurrent.futures
import asyncio
import collections
import inspect
import logging
import types

import py_gql
from py_gql import build_schema, process_graphql_query
from py_gql import exc as _exc
from py_gql.exc import ResolverError
from py_gql.execution import (
    BlockingExecutor,
    Executor,
    Instrumentation,
    MultiInstrumentation,
    default_resolver as _lib_default_resolver,
)
from py_gql.execution.runtime import (
    AsyncIORuntime,
    BlockingRuntime,
    ThreadPoolRuntime,
)
from py_gql.execution.runtime import threadpool as _tp
from py_gql.schema import EnumType, ScalarType

from .kernel import Hang, Kernel, StepCap
from .loop import SimLoop, sim_pause
from .model import error_extensions, error_message
from .pool import SimExecutor, SimFuture
from .workload import ENUM_VALUES, gql_kwargs, is_list

import warnings  # noqa: E402

# After an injected crash py-gql drops coroutine objects of sibling fields
# un-awaited; CPython reports that on stderr.  Not an oracle, so silenced.
warnings.filterwarnings("ignore", category=RuntimeWarning,
                        message="coroutine .* was never awaited")
logging.getLogger("concurrent.futures").disabled = True
logging.getLogger("asyncio").disabled = True

CONFIGS = ("blocking-opt", "blocking-gen", "asyncio-thread", "asyncio-inline",
           "pool")
MODE_OF = {
    "blocking-opt": "blocking",
    "blocking-gen": "blocking",
    "asyncio-thread": "asyncio",
    "asyncio-inline": "asyncio",
    "pool": "pool",
    "threads": "pool",
}


def _traced_files():
    import py_gql.execution.executor as _ex
    import py_gql.execution.wrappers as _wr
    return (_tp.__file__, _ex.__file__, _wr.__file__, __file__)


TRACED_FILES = _traced_files()


class Boom(Exception):
    """Unexpected resolver exception (fault F3)."""


class BoomIndex(Boom, IndexError):
    pass


class BoomKey(Boom, KeyError):
    pass


class BoomValue(Boom, ValueError):
    pass


class BoomType(Boom, TypeError):
    pass


class BoomAttribute(Boom, AttributeError):
    pass


class BoomLookup(Boom, LookupError):
    pass


class BoomLocated(Boom, _exc.GraphQLLocatedError):
    """The library's own located errors are NOT resolver errors: only
    ResolverError is documented as "reported instead of crashing"."""


class BoomEnumValue(Boom, _exc.UnknownEnumValue):
    pass


class BoomCoercion(Boom, _exc.CoercionError):
    pass


class BoomValidation(Boom, _exc.ValidationError):
    pass


class BoomExecution(Boom, _exc.ExecutionError):
    """The class the entry point itself catches around execute() to report
    operation-selection failures."""


class BoomCancelled(Boom, concurrent.futures.CancelledError):
    """What a resolver lets escape when the future it waited on was
    cancelled."""


class BoomRuntime(Boom, RuntimeError):
    """RuntimeError: what asyncio / concurrent.futures raise themselves (loop
    closed, executor shut down) and library code is tempted to handle."""


# unexpected exceptions come in the classes that library code tends to catch
# for its own control flow
BOOM_CLASSES = (Boom, BoomIndex, BoomKey, BoomValue, BoomType, BoomAttribute,
                BoomLookup, BoomLocated, BoomEnumValue, BoomCoercion,
                BoomValidation, BoomExecution, BoomCancelled, BoomRuntime)


class DeniedError(ResolverError):
    """The library documents subclassing ResolverError for expected errors."""


class QuotaError(ResolverError):
    """... a subclass with a constructor of its own (keyword-only, required):
    such an exception cannot be re-created from its ``args`` (copy / pickle
    fail), it can only be handed on as it is."""

    def __init__(self, *, limit, used, message):
        super().__init__(message)
        self.limit = limit
        self.used = used


def _stamp_parse(v):
    if isinstance(v, str) and v.startswith("S:"):
        return int(v[2:])
    raise ValueError("not a stamp: %r" % (v,))


def make_additional_types():
    return [
        EnumType("Color", list(ENUM_VALUES)),
        ScalarType(
            "Stamp",
            serialize=lambda v: None if v % 13 == 0 else "S:%r" % (v,),
            parse=_stamp_parse,
        ),
    ]


class ReqCtx:
    """Per-request context handed to resolvers through ``context=``."""

    __slots__ = ("world", "faults", "kernel", "mode", "loop", "mutseq",
                 "req_id", "stats", "pausable", "shared_error", "serial",
                 "rendezvous", "arrived", "rv_event")

    def __init__(self, world, kernel, mode, loop=None, req_id=0):
        self.world = world
        self.faults = world.faults
        self.kernel = kernel
        self.mode = mode
        self.loop = loop
        self.mutseq = 0
        self.req_id = req_id
        self.stats = {}
        self.pausable = bool(loop is not None and loop.threaded_jobs)
        self.shared_error = None
        self.serial = False
        # two sibling coroutine resolvers that wait for each other to have
        # STARTED (a two-key batch that is dispatched when full): {path:
        # partner path}, filled in by the engine for asyncio runs
        self.rendezvous = {}
        self.arrived = set()
        self.rv_event = None

    def log(self, kind, path=None, payload=None):
        self.kernel.log.add(kind, path, payload)

    def count(self, name):
        self.stats[name] = self.stats.get(name, 0) + 1


# --------------------------------------------------------------------------
# resolver bodies
# --------------------------------------------------------------------------
def _start(tname, fname, root, ctx, info):
    path = tuple(info.path)
    if len(path) == 1 and fname in ("s0", "s1") and \
            getattr(ctx, "is_subscription", False):
        ctx.select_event(root)
    ctx.log("rs", path, ctx.req_id)
    seq = None
    if ctx.serial and len(path) == 1:
        # a root field of a mutation operation (whatever the root type is
        # called -- one object type may serve as query AND mutation root)
        ctx.mutseq += 1
        seq = ctx.mutseq
    return path, seq


def _finish(tname, fname, root, ctx, kwargs, tok):
    path, seq = tok
    fault = ctx.faults.get(path)
    if fault == "errsh":
        # the SAME exception instance raised by several fields of a request
        ctx.log("rx", path, ctx.req_id)
        ctx.count("F1_shared_error_instance")
        if ctx.shared_error is None:
            ctx.shared_error = ResolverError("E@shared")
        raise ctx.shared_error
    if fault in ("err", "errx", "errs", "errpp"):
        ctx.log("rx", path, ctx.req_id)
        ctx.count("F1_resolver_error")
        if fault == "errs":
            ctx.count("F1_resolver_error_subclass")
            if zlib.crc32(repr(path).encode()) & 1:
                ctx.count("F1_subclass_with_own_constructor")
                raise QuotaError(limit=10, used=11,
                                 message=error_message(path))
            raise DeniedError(error_message(path))
        if fault == "errpp":
            # an error that already carries a path of its own (forwarded from
            # an upstream service): the response path of the field wins
            ctx.count("F1_resolver_error_prepathed")
            raise ResolverError(error_message(path), path=["upstream", 0])
        ext = None
        if fault == "errx":
            # "extensions: Optional[Mapping[str, Any]]" -- any mapping
            ext = error_extensions(path)
            shape = len(path) % 3
            if shape == 1:
                ext = types.MappingProxyType(ext)
                ctx.count("F1_extensions_mappingproxy")
            elif shape == 2:
                ext = collections.ChainMap(ext)
                ctx.count("F1_extensions_chainmap")
        raise ResolverError(error_message(path), extensions=ext)
    if fault == "badenum":
        # a value that is no member of the field's enum type
        ctx.log("re", path, ctx.req_id)
        ctx.count("F_bad_enum_value")
        return "no-such-internal-value"
    if fault is not None and fault.startswith("boom"):
        ctx.log("rb", path, ctx.req_id)
        ctx.count("F3_boom")
        cls = BOOM_CLASSES[int(fault[4:] or 0) % len(BOOM_CLASSES)]
        ctx.count("F3_boom_" + cls.__name__)
        raise cls("/".join(str(p) for p in path))
    v = ctx.world.field_value(root, tname, fname,
                              gql_kwargs(ctx.world.spec, kwargs), path, seq)
    ctx.log("re", path, ctx.req_id)
    return v


def _identity(x):
    return x


class _Awaitable:
    """Custom awaitable (neither coroutine, Future nor Task)."""

    def __init__(self, coro):
        self._coro = coro

    def __await__(self):
        return self._coro.__await__()


@types.coroutine
def _generator_based(coro):
    """A generator-based coroutine (types.coroutine): awaitable, yet an object
    of the plain ``generator`` type -- like the lazily produced lists."""
    return (yield from coro.__await__())


def _as_awaitable(ctx, coro, path=None):
    kind = ctx.kernel.stream.below(5, "aw-kind")
    if kind == 0:
        return coro
    if kind == 4:
        ctx.count("awaitable_generator_based")
        return _generator_based(coro)
    if path is not None and any(
            k == "generr" and len(path) > len(z)
            and tuple(path[:len(z)]) == tuple(z)
            for z, k in ctx.faults.items()):
        # a row of a lazily produced list that fails afterwards: what is left
        # in flight is then the library's doing, not a task the resolver
        # started on its own
        return coro
    if kind == 1:
        ctx.count("awaitable_task")
        return ctx.loop.create_task(coro)
    if kind == 2:
        ctx.count("awaitable_custom")
        return _Awaitable(coro)
    ctx.count("awaitable_loop_future")
    fut = ctx.loop.create_future()

    def done(t):
        if fut.done():
            return
        if t.exception() is not None:
            fut.set_exception(t.exception())
        else:
            fut.set_result(t.result())

    ctx.loop.create_task(coro).add_done_callback(done)
    return fut


def make_default_attr(tname, fname, oid):
    """Callable stored on Obj values; reached through py-gql's
    default_resolver (``field_value(context, info, **args)``).  The parent is
    not passed by default_resolver, so the closure carries its id."""
    parent = {"__id__": oid}
    # one method in three hands back a deferred value (a coroutine-backed
    # awaitable under asyncio, a submitted task on the pool): values supplied
    # through the default resolver go through the runtime like any other
    deferred = zlib.crc32(("%s.%s" % (tname, fname)).encode()) % 3 == 0

    def attr(ctx, info, **kwargs):
        tok = _start(tname, fname, parent, ctx, info)
        if deferred and ctx.mode == "asyncio":
            async def inner():
                await ctx.loop.sleep(ctx.kernel.draw_latency("dd-lat"))
                return _finish(tname, fname, parent, ctx, kwargs, tok)

            ctx.count("deferred_from_default_resolver")
            return _as_awaitable(ctx, inner(), tok[0])
        if deferred and ctx.mode == "pool":
            ctx.count("deferred_from_default_resolver")
            return info.runtime.submit(
                lambda: _finish(tname, fname, parent, ctx, kwargs, tok))
        return _finish(tname, fname, parent, ctx, kwargs, tok)

    return attr


def make_resolvers(spec, tname, fname):
    """{mode: callable} for one (type, field)."""
    beh = spec.behaviours[(tname, fname)]
    listy = is_list(spec.fields[fname].type)

    def sync(root, ctx, info, **kwargs):
        tok = _start(tname, fname, root, ctx, info)
        if ctx.pausable and ctx.kernel.stream.below(2, "job-pause"):
            # inside a threaded executor job: stay "in the resolver" while
            # other work (other jobs included) proceeds
            sim_pause()
        v = _finish(tname, fname, root, ctx, kwargs, tok)
        if beh == "gen" and v is not None:
            ctx.count("gen_value")
            if ctx.faults.get(tok[0]) == "generr":
                # the lazily produced list fails AFTER its rows have been
                # handed over (a cursor dying at the end of a result set)
                ctx.count("F1_lazy_list_fails_mid_iteration")

                def rows(items=list(v), path=tok[0]):
                    for x in items:
                        yield x
                    ctx.log("lx", path, ctx.req_id)
                    raise ResolverError(error_message(path))
                return rows()
            return (x for x in v)
        return v

    out = {"blocking": sync, "pool": sync, "asyncio": sync}

    if beh == "rtapi":
        # A resolver that uses the runtime's own combinators (ResolveInfo
        # exposes the runtime for this): every list item becomes a submitted
        # task; once the FIRST one is there all of them are gathered -- so the
        # gather sees an already completed future ahead of pending ones.
        def _parts(ctx, info, v):
            runtime = info.runtime
            parts = [runtime.submit(_identity, x) for x in v]
            ctx.count("runtime_api_resolver")
            if not parts:
                return runtime.gather_values(parts)
            return runtime.map_value(
                parts[0], lambda _first: runtime.gather_values(parts))

        def rt_sync(root, ctx, info, **kwargs):
            tok = _start(tname, fname, root, ctx, info)
            v = _finish(tname, fname, root, ctx, kwargs, tok)
            return None if v is None else _parts(ctx, info, list(v))

        async def rt_async(root, ctx, info, **kwargs):
            tok = _start(tname, fname, root, ctx, info)
            v = _finish(tname, fname, root, ctx, kwargs, tok)
            return None if v is None else _parts(ctx, info, list(v))

        out = {"blocking": rt_sync, "pool": rt_sync, "asyncio": rt_async}

    if beh == "async":
        async def coro(root, ctx, info, **kwargs):
            tok = _start(tname, fname, root, ctx, info)
            partner = ctx.rendezvous.get(tuple(tok[0]))
            if partner is not None:
                # both siblings are in flight once the runtime has gathered
                # them: neither may be made to wait for the other to FINISH
                ctx.arrived.add(tuple(tok[0]))
                if ctx.rv_event is None:
                    ctx.rv_event = asyncio.Event()
                if partner in ctx.arrived:
                    ctx.count("rendezvous_completed")
                    ctx.rv_event.set()
                else:
                    ctx.count("rendezvous_waited")
                    await ctx.rv_event.wait()
            n = 1 + ctx.kernel.stream.below(2, "susp")
            for _ in range(n):
                await ctx.loop.sleep(ctx.kernel.draw_latency("coro-lat"))
            ctx.count("coroutine_resolver")
            return _finish(tname, fname, root, ctx, kwargs, tok)

        out["asyncio"] = coro
    elif beh in ("awaitable", "nested"):
        def aw(root, ctx, info, **kwargs):
            tok = _start(tname, fname, root, ctx, info)

            async def inner():
                await ctx.loop.sleep(ctx.kernel.draw_latency("aw-lat"))
                return _finish(tname, fname, root, ctx, kwargs, tok)

            if beh == "nested":
                async def outer():
                    await ctx.loop.sleep(ctx.kernel.draw_latency("aw-lat"))
                    # the inner awaitable is handed back un-awaited, in one
                    # of the shapes user code produces (DataLoader-style
                    # futures, ensure_future, objects with __await__)
                    return _as_awaitable(ctx, inner(), tok[0])

                ctx.count("nested_awaitable")
                return _as_awaitable(ctx, outer(), tok[0])
            ctx.count("awaitable_value")
            return _as_awaitable(ctx, inner(), tok[0])

        def pf(root, ctx, info, **kwargs):
            tok = _start(tname, fname, root, ctx, info)

            def inner():
                return _finish(tname, fname, root, ctx, kwargs, tok)

            if beh == "nested":
                ctx.count("nested_future")
                return info.runtime.submit(
                    lambda: info.runtime.submit(inner)
                )
            ctx.count("future_value")
            return info.runtime.submit(inner)

        out["asyncio"] = aw
        out["pool"] = pf
    return out


class Bundle:
    """A py-gql schema built from a spec plus the resolver tables needed to
    re-register resolvers per execution mode (re-registration through the
    documented API is itself part of the history the schema object sees)."""

    def __init__(self, spec):
        self.spec = spec
        self.sdl = spec.sdl()
        self.schema = build_schema(
            self.sdl, additional_types=make_additional_types()
        )
        self.tables = {}
        behaviours = spec.behaviours

        # ONE function object registered on many fields (a generic resolver
        # dispatching on info), and one used as per-type default resolver
        def shared(root, ctx, info, **kwargs):
            tname = info.parent_type.name
            fname = info.field_definition.name
            tok = _start(tname, fname, root, ctx, info)
            ctx.count("shared_resolver_function")
            return _finish(tname, fname, root, ctx, kwargs, tok)

        def make_type_default(tname):
            # one function per type, which knows its own type (it does not
            # ask info): handed a field of another type it answers wrongly
            def type_default(root, ctx, info, **kwargs):
                fname = info.field_definition.name
                if info.parent_type.name != tname:
                    # this is the resolver of ANOTHER type
                    ctx.count("type_default_asked_about_foreign_type")
                    raise ResolverError(
                        "default resolver of %s asked about %s.%s" % (
                            tname, info.parent_type.name, fname))
                if behaviours.get((tname, fname)) != "tdefault":
                    # a field meant for the library's default resolver
                    return _lib_default_resolver(root, ctx, info, **kwargs)
                tok = _start(tname, fname, root, ctx, info)
                ctx.count("type_default_resolver")
                return _finish(tname, fname, root, ctx, kwargs, tok)
            return type_default

        self.shared = shared
        for tname, tdef in spec.objects.items():
            has_tdefault = False
            for f in tdef["fields"]:
                beh = behaviours[(tname, f)]
                if beh == "default":
                    continue
                if beh == "tdefault":
                    has_tdefault = True
                    continue
                if beh == "shared":
                    self.tables[(tname, f)] = {
                        "blocking": shared, "pool": shared, "asyncio": shared}
                    continue
                self.tables[(tname, f)] = make_resolvers(spec, tname, f)
            if has_tdefault:
                self.schema.register_default_resolver(
                    tname, make_type_default(tname))
        if spec.pyname_args:
            from py_gql.schema import InterfaceType, ObjectType
            for t in self.schema.types.values():
                if isinstance(t, (ObjectType, InterfaceType)) and \
                        not t.name.startswith("__"):
                    for f in t.fields:
                        for a in f.arguments:
                            if a.name in spec.pyname_args:
                                a.python_name = "py_" + a.name
        if spec.share_fields:
            # code-first style: ONE Field object listed by several object
            # types (fields without a resolver of their own, identical in
            # every respect)
            first = {}
            for tname in sorted(spec.objects):
                t = self.schema.types[tname]
                fields = list(t.fields)
                for i, f in enumerate(fields):
                    if behaviours[(tname, f.name)] not in ("tdefault",
                                                           "default"):
                        continue
                    if any(k[0] == tname and k[1] == f.name
                           for k in spec.arg_overrides):
                        continue
                    if f.name in first:
                        fields[i] = first[f.name]
                    else:
                        first[f.name] = f
                t.fields = fields
        self.mode = None
        for aname, how in spec.resolve_type.items():
            if how == "attr":
                continue
            t = self.schema.get_type(aname)
            if how == "fn-type":
                t.resolve_type = _resolve_type_obj
            else:
                t.resolve_type = _resolve_type_name

    def set_mode(self, mode):
        if mode == self.mode:
            return
        reg = self.schema.register_resolver
        for (tname, f), tbl in self.tables.items():
            reg(tname, f, tbl[mode], allow_override=True)
        self.mode = mode


def _typename_of(value):
    return value["__typename__"] if isinstance(value, dict) \
        else value.__typename__  # (objects and mapping proxies)


def _resolve_type_obj(value, ctx, info):
    return info.schema.get_type(_typename_of(value))


def _resolve_type_name(value, ctx, info):
    return _typename_of(value)


# --------------------------------------------------------------------------
# recording instrumentation / middlewares
# --------------------------------------------------------------------------
class Recorder(Instrumentation):
    def __init__(self, kernel_ref, tag, req_id=0):
        self._k = kernel_ref
        self.tag = tag
        self.req_id = req_id

    def _log(self, kind, path=None):
        self._k().log.add(kind, path, (self.tag, self.req_id))

    def on_query_start(self):
        self._log("query_start")

    def on_query_end(self):
        self._log("query_end")

    def on_parsing_start(self):
        self._log("parsing_start")

    def on_parsing_end(self):
        self._log("parsing_end")

    def on_validation_start(self):
        self._log("validation_start")

    def on_validation_end(self):
        self._log("validation_end")

    def on_execution_start(self):
        self._log("execution_start")

    def on_execution_end(self):
        self._log("execution_end")

    def on_field_start(self, root, ctx, info):
        self._log("field_start", tuple(info.path))

    def on_field_end(self, root, ctx, info):
        self._log("field_end", tuple(info.path))


class SharedRecorder(Recorder):
    """One instrumentation object handed to SEVERAL concurrent requests (a
    logger, a metrics counter).  Stage hooks carry no request identity: they
    are logged under ("SH", None) and judged by their totals; field hooks are
    attributed through the context they receive."""

    def __init__(self, kernel_ref):
        Recorder.__init__(self, kernel_ref, "SH", None)

    def on_field_start(self, root, ctx, info):
        self._k().log.add("field_start", tuple(info.path),
                          ("R0", ctx.req_id))

    def on_field_end(self, root, ctx, info):
        self._k().log.add("field_end", tuple(info.path), ("R0", ctx.req_id))


class EndsOnlyRecorder(Instrumentation):
    """An instrumentation that implements only the *_end hooks (a slow-field
    logger, a counter): the other hooks are inherited no-ops."""

    def __init__(self, kernel_ref, tag, req_id=0):
        self._k = kernel_ref
        self.tag = tag
        self.req_id = req_id

    def _log(self, kind, path=None):
        self._k().log.add(kind, path, (self.tag, self.req_id))

    def on_query_end(self):
        self._log("query_end")

    def on_parsing_end(self):
        self._log("parsing_end")

    def on_validation_end(self):
        self._log("validation_end")

    def on_execution_end(self):
        self._log("execution_end")

    def on_field_end(self, root, ctx, info):
        self._log("field_end", tuple(info.path))


class StartsOnlyRecorder(Instrumentation):
    def __init__(self, kernel_ref, tag, req_id=0):
        self._k = kernel_ref
        self.tag = tag
        self.req_id = req_id

    def _log(self, kind, path=None):
        self._k().log.add(kind, path, (self.tag, self.req_id))

    def on_query_start(self):
        self._log("query_start")

    def on_parsing_start(self):
        self._log("parsing_start")

    def on_validation_start(self):
        self._log("validation_start")

    def on_execution_start(self):
        self._log("execution_start")

    def on_field_start(self, root, ctx, info):
        self._log("field_start", tuple(info.path))


class MiddlewareObject:
    """A middleware given as a configured callable OBJECT that compares by
    value (a frozen-dataclass style policy object).  Every request configures
    an instance of its own; what an instance has seen is its own state."""

    def __init__(self, tag):
        self.tag = tag
        self.seen = 0

    def __eq__(self, other):
        return isinstance(other, MiddlewareObject) and other.tag == self.tag

    def __hash__(self):
        return hash(("MiddlewareObject", self.tag))

    def __call__(self, next_, root, ctx, info, /, **kwargs):
        path = tuple(info.path)
        self.seen += 1
        ctx.log("mw_enter", path, (self.tag, ctx.req_id))
        try:
            return next_(root, ctx, info, **kwargs)
        finally:
            ctx.log("mw_exit", path, (self.tag, ctx.req_id))


def make_middleware(tag, is_async=False):
    def mw(next_, root, ctx, info, **kwargs):
        path = tuple(info.path)
        ctx.log("mw_enter", path, (tag, ctx.req_id))
        try:
            return next_(root, ctx, info, **kwargs)
        finally:
            ctx.log("mw_exit", path, (tag, ctx.req_id))

    async def amw(next_, root, ctx, info, **kwargs):
        path = tuple(info.path)
        ctx.log("mw_enter", path, (tag, ctx.req_id))
        try:
            r = next_(root, ctx, info, **kwargs)
            while inspect.isawaitable(r):
                r = await r
            return r
        finally:
            ctx.log("mw_exit", path, (tag, ctx.req_id))

    return amw if is_async else mw


# --------------------------------------------------------------------------
# outcome of one configuration run
# --------------------------------------------------------------------------
class Outcome:
    __slots__ = ("config", "status", "result", "exc", "kernel", "loop_info",
                 "ctx", "blocking_waits", "l2", "mw_bypassed")

    def __init__(self, config):
        self.config = config
        self.status = None   # "ok" | "raised" | "hang" | "stepcap"
        self.result = None   # GraphQLResult
        self.exc = None
        self.kernel = None
        self.loop_info = None
        self.ctx = None
        self.blocking_waits = 0
        self.l2 = None


_APP_BLOCKING_RUNTIME = BlockingRuntime()


def run_config(config, bundle, request, world, stream, policy=None,
               instrumentation_factory=None, middlewares_factory=None,
               max_steps=200000):
    """Execute ``request`` (dict: text, variables, operation_name) under one
    configuration with the schedule decided by ``stream``."""
    mode = MODE_OF[config]
    kernel = Kernel(stream, policy=policy, max_steps=max_steps)
    out = Outcome(config)
    out.kernel = kernel
    bundle.set_mode(mode)
    world.make_default = make_default_attr
    kw = dict(
        variables=request.get("variables"),
        operation_name=request.get("operation_name"),
    )
    if request.get("root") is not None:
        kw["root"] = request["root"]
    if request.get("validators") is not None:
        kw["validators"] = request["validators"]
    kref = lambda: kernel  # noqa: E731
    if instrumentation_factory is not None:
        kw["instrumentation"] = instrumentation_factory(kref)
    else:
        kw["instrumentation"] = Recorder(kref, "R0")
    loop = None
    if mode == "asyncio":
        loop = SimLoop(kernel)
        if config == "asyncio-thread":
            # a third of the runs execute the offloaded resolvers in real,
            # pausable threads so that their bodies overlap
            loop.threaded_jobs = stream.below(3, "threaded-jobs") == 2
    ctx = ReqCtx(world, kernel, mode, loop=loop)
    ctx.serial = request.get("kind") == "mutation"
    if mode == "asyncio" and request.get("rendezvous"):
        a_, b_ = request["rendezvous"]
        ctx.rendezvous = {a_: b_, b_: a_}
    out.ctx = ctx
    kw["context"] = ctx
    if middlewares_factory is not None:
        kw["middlewares"] = middlewares_factory(mode)
    text = request["text"]
    in_except = bool(request.get("in_except"))

    def _in_handler(call):
        """Run ``call`` from inside an ``except`` block of the caller."""
        try:
            raise LookupError("cache miss in the caller")
        except LookupError:
            return call()

    try:
        if config == "blocking-opt":
            # the documented blocking entry point (BlockingExecutor inside)
            call = lambda: py_gql.graphql_blocking(  # noqa: E731
                bundle.schema, text, **kw)
            out.result = _in_handler(call) if in_except else call()
            out.status = "ok"
        elif config == "blocking-gen":
            # every other world is served by a runtime object that lives as
            # long as the process (a module-level ``RUNTIME = ...``)
            rt_ = _APP_BLOCKING_RUNTIME if world.seed & 1 else \
                BlockingRuntime()
            call = lambda: process_graphql_query(  # noqa: E731
                bundle.schema, text, executor_cls=Executor,
                runtime=rt_, **kw
            )
            out.result = _in_handler(call) if in_except else call()
            out.status = "ok"
        elif mode == "asyncio":
            rt = AsyncIORuntime(
                loop=loop,
                execute_blocking_functions_in_thread=(
                    config == "asyncio-thread"
                ),
            )

            use_graphql = (config == "asyncio-thread"
                           and stream.below(2, "entry-point") == 1)

            async def main_():
                if use_graphql:
                    # the documented asyncio entry point; AsyncIORuntime()
                    # picks up the running (simulated) loop
                    return await py_gql.graphql(bundle.schema, text, **kw)
                r = process_graphql_query(
                    bundle.schema, text, runtime=rt, **kw
                )
                return await r

            async def main():
                if not in_except:
                    return await main_()
                try:
                    raise LookupError("cache miss in the caller")
                except LookupError:
                    return await main_()

            try:
                out.result = loop.run_until_complete(main())
                out.status = "ok"
            finally:
                out.loop_info = _settle_and_close(loop, kernel)
        elif config == "pool":
            rt = ThreadPoolRuntime(max_workers=1)
            rt._inner.shutdown(wait=False)
            rt._inner = SimExecutor(
                kernel, nworkers=(1, 2, 4)[stream.below(3, "pool-size")])
            saved = _tp.Future
            _tp.Future = SimFuture
            SimFuture.kernel = kernel
            SimFuture.executor = rt._inner
            waits0 = SimFuture.blocking_waits
            try:
                call = lambda: process_graphql_query(  # noqa: E731
                    bundle.schema, text, runtime=rt, **kw
                )
                fut = _in_handler(call) if in_except else call()
                kernel.run_until(fut.done)
                kernel.drain()
                if kernel.deadlock:
                    raise Hang("every pool worker was blocked in "
                               "Future.result() inside a task (bounded-pool "
                               "deadlock)")
                out.result = fut.result(0)
                out.status = "ok"
            finally:
                out.blocking_waits = SimFuture.blocking_waits - waits0
                _tp.Future = saved
                SimFuture.kernel = None
                SimFuture.executor = None
        elif config == "threads":
            from . import threads as _th
            nworkers = 1 + stream.below(4, "n-workers")
            if stream.below(3, "l2-policy") == 2:
                pol = {"kind": "pct", "k": stream.below(4, "pct-k"),
                       "horizon": 400 * (1 + stream.below(8, "pct-h"))}
            else:
                pol = {"kind": "rw",
                       "mean": (2, 5, 20, 60)[stream.below(4, "rw-mean")],
                       "hot_den": (2, 3, 6, 12)[stream.below(4, "rw-hot")]}
            sim = _th.ThreadSim(kernel, TRACED_FILES, nworkers, pol,
                                max_steps=4000000)
            out.l2 = sim
            rt = ThreadPoolRuntime(max_workers=1)
            rt._inner.shutdown(wait=False)
            rt._inner = _th.ThreadSimExecutor(sim)
            saved = _tp.Future
            _tp.Future = _th.L2Future
            try:
                fut = sim.run(lambda: process_graphql_query(
                    bundle.schema, text, runtime=rt, **kw))
                out.result = fut.result(0) if hasattr(fut, "result") else fut
                out.status = "ok"
            finally:
                _tp.Future = saved
                out.blocking_waits = sim.stats["blocking_waits"]
        else:
            raise AssertionError(config)
    except Hang as err:
        out.status = "hang"
        out.exc = err
    except StepCap as err:
        out.status = "stepcap"
        out.exc = err
    except Exception as err:  # noqa: B902 - outcome classification
        out.status = "raised"
        out.exc = err
    return out


def _other_tasks(loop, me):
    # all_tasks() is a set (address-ordered): sort by the deterministic names
    return sorted((t for t in asyncio.all_tasks(loop) if t is not me),
                  key=lambda t: int(t.get_name().rsplit("-", 1)[1]))


def _settle_and_close(loop, kernel):
    """After the main result is known: let leftover tasks and kernel items run
    (late events matter to the exactly-once oracles), then close."""
    info = {"stuck_tasks": 0, "unhandled": 0, "executor_jobs": 0}

    async def settle():
        idle = 0
        me = asyncio.current_task()
        while idle < 3:
            others = _other_tasks(loop, me)
            if kernel.heap:
                idle = 0
                kernel.step()
                await asyncio.sleep(0)
            elif others:
                idle += 1
                await asyncio.sleep(0)
            else:
                break
        others = _other_tasks(loop, me)
        info["stuck_tasks"] = len(others)
        for t in others:
            t.cancel()
        if others:
            await asyncio.gather(*others, return_exceptions=True)

    try:
        loop.run_until_complete(settle())
    except (Hang, StepCap):
        pass
    info["unhandled"] = len(loop.unhandled)
    info["executor_jobs"] = loop.executor_jobs
    info["overlapping_jobs"] = loop.overlapping_jobs
    loop.close()
    return info


def run_overlapped(config, bundle, requests, worlds, stream, policy=None,
                   max_steps=400000, shared_instrumentation=False):
    """Execute several requests *concurrently* against one schema object on
    one simulated loop / pool.  Each request has its own context (req_id) and
    its own recording instrumentation; all share the kernel and its log.
    Returns (kernel, [Outcome per request])."""
    mode = MODE_OF[config]
    assert mode in ("asyncio", "pool")
    kernel = Kernel(stream, policy=policy, max_steps=max_steps)
    bundle.set_mode(mode)
    outs = []
    kws = []
    loop = SimLoop(kernel) if mode == "asyncio" else None
    shared = None
    if shared_instrumentation:
        # ONE stack object for all the requests
        shared = MultiInstrumentation(SharedRecorder(lambda: kernel))
    for rid, (request, world) in enumerate(zip(requests, worlds)):
        world.make_default = make_default_attr
        out = Outcome(config)
        out.kernel = kernel
        ctx = ReqCtx(world, kernel, mode, loop=loop, req_id=rid)
        ctx.serial = request.get("kind") == "mutation"
        out.ctx = ctx
        outs.append(out)
        kws.append(dict(
            variables=request.get("variables"),
            operation_name=request.get("operation_name"),
            context=ctx,
            instrumentation=shared if shared is not None
            else Recorder(lambda: kernel, "R0", rid),
        ))
        if request.get("root") is not None:
            kws[-1]["root"] = request["root"]
    try:
        if mode == "asyncio":
            rt = AsyncIORuntime(
                loop=loop,
                execute_blocking_functions_in_thread=(
                    config == "asyncio-thread"),
            )

            async def one(i):
                await loop.sleep(kernel.draw_latency("req-start"))
                try:
                    r = process_graphql_query(
                        bundle.schema, requests[i]["text"], runtime=rt,
                        **kws[i])
                    outs[i].result = await r
                    outs[i].status = "ok"
                except Exception as err:  # noqa: B902
                    outs[i].status = "raised"
                    outs[i].exc = err

            async def main():
                await asyncio.gather(*[
                    loop.create_task(one(i)) for i in range(len(requests))])

            try:
                loop.run_until_complete(main())
            finally:
                info = _settle_and_close(loop, kernel)
                for o in outs:
                    o.loop_info = info
        else:
            rt = ThreadPoolRuntime(max_workers=1)
            rt._inner.shutdown(wait=False)
            rt._inner = SimExecutor(
                kernel, nworkers=(2, 4)[stream.below(2, "pool-size")])
            saved = _tp.Future
            _tp.Future = SimFuture
            SimFuture.kernel = kernel
            SimFuture.executor = rt._inner
            try:
                futs = []
                for i in range(len(requests)):
                    try:
                        futs.append(process_graphql_query(
                            bundle.schema, requests[i]["text"], runtime=rt,
                            **kws[i]))
                    except Exception as err:  # noqa: B902
                        futs.append(None)
                        outs[i].status = "raised"
                        outs[i].exc = err
                    # let some work happen between the two submissions
                    for _ in range(kernel.stream.below(4, "between")):
                        if not kernel.step():
                            break
                kernel.run_until(
                    lambda: all(f is None or f.done() for f in futs))
                kernel.drain()
                if kernel.deadlock:
                    raise Hang("bounded-pool deadlock")
                for i, f in enumerate(futs):
                    if f is None:
                        continue
                    try:
                        outs[i].result = f.result(0)
                        outs[i].status = "ok"
                    except Exception as err:  # noqa: B902
                        outs[i].status = "raised"
                        outs[i].exc = err
            finally:
                _tp.Future = saved
                SimFuture.kernel = None
                SimFuture.executor = None
    except Hang as err:
        for o in outs:
            if o.status is None:
                o.status = "hang"
                o.exc = err
    except StepCap as err:
        for o in outs:
            o.status = "stepcap"
            o.exc = err
    return kernel, outs
