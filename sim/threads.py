"""ThreadSim (L2) -- real threads, exactly one runnable at a time.

The thread-pool runtime's shared-state code (``gather_futures.done/result/
outer``, ``chain.target``, ResolutionContext caches and ``_errors``,
``execute_fields_serially.args/resolved_fields``) is executed by N real worker
threads plus the caller thread.  Each has a semaphore gate; exactly one holds
the baton.  ``sys.settrace`` delivers ``line`` events only for frames of the
traced files; at such an event the running thread asks the seeded scheduler
whether to pre-empt.  Which task starts next and who runs after a completion
are draws too.  stdlib frames are never traced, so a thread is never parked
while holding ``Future._condition``.

Policies (swarm, drawn per run):
  rw   random walk: the distance (in line events) to the next pre-emption is
       drawn; the next thread is drawn uniformly among the candidates;
  pct  PCT-style: tasks get random priorities, the highest-priority candidate
       always runs, and at k drawn step indices the running task drops to the
       lowest priority.

Thread identity is the simulator's index, never ``threading.get_ident()``.
"""
import concurrent.futures as cf
import sys
import threading

from .kernel import Hang, StepCap

RUNNABLE, IDLE, BLOCKED, DONE = "runnable", "idle", "blocked", "done"

# Helpers with a process-global memo keyed by type: the first call for a type
# takes another path (more line events) than later calls, which would make the
# pre-emption points of a run depend on what the process executed before.
_UNTRACED_FUNCTIONS = frozenset(["_is_future_fast", "_isawaitable_fast"])

# Functions of the traced files that read-modify-write state shared between
# worker threads; the random-walk policy may pre-empt more often inside them.
_HOT_FUNCTIONS = frozenset([
    "add_error", "clear_errors", "on_finish", "cb", "fail", "complete",
    "_next", "_collect", "_handle_non_nullable_value", "collect_fields",
    "field_definition", "argument_values", "field_resolver",
])


class SimAbort(BaseException):
    """Unwinds parked threads when a run is abandoned (hang / step cap)."""


class _T:
    __slots__ = ("idx", "gate", "status", "prio", "thread", "wait_pred",
                 "penalty")

    def __init__(self, idx):
        self.idx = idx
        self.gate = threading.Semaphore(0)
        self.status = IDLE
        self.prio = 0
        self.thread = None
        self.wait_pred = None
        self.penalty = 0  # scheduling decisions to sit out after a hot stop


class L2Future(cf.Future):
    sim = None

    def result(self, timeout=None):
        s = L2Future.sim
        if s is not None and not self.done():
            s.stats["blocking_waits"] += 1
            s.block_until(self.done)
        return super().result(0 if s is not None else timeout)

    def exception(self, timeout=None):
        s = L2Future.sim
        if s is not None and not self.done():
            s.stats["blocking_waits"] += 1
            s.block_until(self.done)
        return super().exception(0 if s is not None else timeout)


class ThreadSim:
    def __init__(self, kernel, traced_files, nworkers, policy, max_steps):
        self.kernel = kernel
        self.stream = kernel.stream
        self.traced = frozenset(traced_files)
        self.policy = policy  # {"kind": "rw", "mean": n} | {"kind":"pct",..}
        self.max_steps = max_steps
        self.threads = [_T(0)]  # index 0 = caller thread
        self.threads[0].status = RUNNABLE
        self.threads[0].prio = (
            kernel.stream.below(1000, "main-prio")
            if policy["kind"] == "pct" else 0)
        for i in range(nworkers):
            self.threads.append(_T(i + 1))
        self.queue = []  # pending tasks: (fn, args, kwargs, future, prio)
        self.current = self.threads[0]
        self.steps = 0
        self.abort = False
        self.fatal = None
        self.stats = {
            "preemptions": 0, "line_events": 0, "tasks": 0,
            "blocking_waits": 0, "switches": 0, "hot_preemptions": 0,
        }
        self._next_preempt = None
        self._hot_den = policy.get("hot_den", 0)
        self._low = 0
        self._tls = threading.local()
        if policy["kind"] == "pct":
            k = policy.get("k", 1)
            horizon = policy.get("horizon", 3000)
            self._change_points = sorted(
                self.stream.below(horizon, "pct-point") for _ in range(k))
        else:
            self._change_points = []
            self._draw_next_preempt()

    # ------------------------------------------------------------------
    def _draw_next_preempt(self):
        mean = self.policy.get("mean", 20)
        self._next_preempt = self.steps + 1 + self.stream.below(
            2 * mean, "preempt-gap")

    def me(self):
        return self._tls.t

    # ---- tracing ------------------------------------------------------
    def _global_trace(self, frame, event, arg):
        code = frame.f_code
        if code.co_filename in self.traced and \
                code.co_name not in _UNTRACED_FUNCTIONS:
            return self._local_trace
        return None

    def _local_trace(self, frame, event, arg):
        if event == "line":
            self.on_line(frame.f_code.co_name in _HOT_FUNCTIONS)
        return self._local_trace

    def on_line(self, hot=False):
        if self.abort:
            raise SimAbort()
        self.steps += 1
        self.stats["line_events"] += 1
        if self.steps > self.max_steps:
            self.fatal = StepCap("L2 step cap %d exceeded" % self.max_steps)
            self._abort_all()
            raise SimAbort()
        kind = self.policy["kind"]
        if kind == "rw":
            if self.steps >= self._next_preempt:
                self._draw_next_preempt()
                self._reschedule(preempt=True)
            elif hot and self._hot_den and self.stream.chance(
                    1, self._hot_den, "hot-preempt"):
                # extra pre-emptions inside the functions that touch state
                # shared between worker threads (error list, gather slots,
                # serial-chain accumulators)
                # The stopped thread sits out a few scheduling decisions and
                # the others get a long uninterrupted stretch: the window in
                # which a lost update / stale read between two statements of
                # this function can materialise.
                self.stats["hot_preemptions"] += 1
                self.me().penalty = 1 + self.stream.below(4, "hot-penalty")
                self._next_preempt = self.steps + 40 + self.stream.below(
                    200, "hot-stretch")
                self._reschedule(preempt=True)
        elif kind == "pct":
            if self._change_points and self.steps >= self._change_points[0]:
                self._change_points.pop(0)
                self._low -= 1
                self.me().prio = self._low
                self._reschedule(preempt=True)

    # ---- scheduling ---------------------------------------------------
    def _candidates(self):
        cands = [t for t in self.threads if t.status == RUNNABLE]
        for t in self.threads:
            if t.status == BLOCKED and t.wait_pred is not None \
                    and t.wait_pred():
                cands.append(t)
        if self.queue:
            for t in self.threads[1:]:
                if t.status == IDLE:
                    cands.append(t)  # lowest-index idle worker starts a task
                    break
        return cands

    def _pick(self, cands, preempt):
        me = self.me()
        if self.policy["kind"] == "pct":
            def prio(t):
                if t.status == IDLE:
                    return self.queue[0][4]
                return t.prio
            return max(cands, key=lambda t: (prio(t), -t.idx))
        others = [t for t in cands if t is not me] if preempt else cands
        if not others:
            return me if me in cands else None
        free = [t for t in others if t.penalty == 0]
        for t in others:
            if t.penalty:
                t.penalty -= 1
        pool = free or others
        return pool[self.stream.below(len(pool), "next-thread")]

    def _reschedule(self, preempt=False):
        """Called by the running thread at a scheduling point while it is
        still runnable (pre-emption) or after it changed its own status."""
        me = self.me()
        cands = self._candidates()
        if not cands:
            return self._nobody(me)
        nxt = self._pick(cands, preempt)
        if nxt is None or nxt is me:
            return
        if preempt:
            self.stats["preemptions"] += 1
        self._switch(me, nxt)

    def _nobody(self, me):
        # no candidate at all: everything is idle / blocked
        if me.status in (BLOCKED,):
            self.fatal = Hang()
            self._abort_all()
            raise SimAbort()
        # an idle worker with nothing to do simply parks; somebody else must
        # be holding the baton -- but we are the running thread, so this is
        # quiescence: wake the caller if it waits on a predicate
        self.fatal = Hang()
        self._abort_all()
        raise SimAbort()

    def _switch(self, me, nxt):
        self.stats["switches"] += 1
        self.current = nxt
        self.kernel.actor = "T%d" % nxt.idx
        nxt.gate.release()
        me.gate.acquire()
        if self.abort:
            raise SimAbort()
        self.kernel.actor = "T%d" % me.idx

    def _abort_all(self):
        self.abort = True
        for t in self.threads:
            t.gate.release()
            t.gate.release()

    # ---- API used by the executor stand-in -----------------------------
    def submit(self, fn, args, kwargs):
        fut = L2Future()
        prio = self.stream.below(1000, "task-prio") \
            if self.policy["kind"] == "pct" else 0
        self.queue.append((fn, args, kwargs, fut, prio))
        self.stats["tasks"] += 1
        # a submission is a scheduling point: a free worker may start at once
        if self.policy["kind"] == "pct":
            self._reschedule(preempt=False)
        elif self.stream.chance(1, 3, "start-now"):
            self._reschedule(preempt=True)
        return fut

    def block_until(self, pred):
        """The calling thread waits for ``pred()`` (e.g. a future is done)."""
        me = self.me()
        while not pred():
            me.status = BLOCKED
            me.wait_pred = pred
            cands = [c for c in self._candidates() if c is not me]
            if not cands:
                me.status = RUNNABLE
                me.wait_pred = None
                if pred():
                    return
                self.fatal = Hang()
                self._abort_all()
                raise SimAbort()
            nxt = self._pick(cands, preempt=False)
            try:
                self._switch(me, nxt)
            finally:
                me.status = RUNNABLE
                me.wait_pred = None

    # ---- worker loop ------------------------------------------------------
    def _worker(self, t):
        self._tls.t = t
        sys.settrace(self._global_trace)
        try:
            t.gate.acquire()  # parked until picked to start a task
            while not self.abort:
                # Invariant: this worker holds the baton and was picked as the
                # idle worker that starts the next queued task.
                fn, args, kwargs, fut, prio = self.queue.pop(0)
                t.status = RUNNABLE
                t.prio = prio
                if fut.set_running_or_notify_cancel():
                    try:
                        res = fn(*args, **kwargs)
                    except SimAbort:
                        raise
                    except BaseException as err:  # noqa: B902
                        fut.set_exception(err)
                    else:
                        fut.set_result(res)
                # completion is a scheduling point
                t.status = IDLE
                cands = self._candidates()
                if not cands:
                    self.fatal = Hang()
                    self._abort_all()
                    return
                nxt = self._pick(cands, preempt=False)
                if nxt is t:
                    continue
                self._switch(t, nxt)
        except SimAbort:
            pass
        except BaseException as err:  # noqa: B902 - harness failure
            if self.fatal is None:
                self.fatal = err
            self._abort_all()
        finally:
            sys.settrace(None)
            t.status = DONE

    # ---- run ----------------------------------------------------------------
    def run(self, main_fn):
        """Run ``main_fn()`` on the caller thread under the simulator; it must
        return a future (or a plain value).  Returns the final value / raises
        what the future raised, Hang or StepCap."""
        L2Future.sim = self
        me = self.threads[0]
        self._tls.t = me
        for t in self.threads[1:]:
            t.thread = threading.Thread(target=self._worker, args=(t,),
                                        daemon=True)
            t.thread.start()
        self.kernel.actor = "T0"
        old = sys.gettrace()
        sys.settrace(self._global_trace)
        try:
            try:
                fut = main_fn()
                if isinstance(fut, cf.Future):
                    self.block_until(fut.done)
                    # let remaining work drain (late callbacks matter to the
                    # exactly-once oracles)
                    self.block_until(lambda: not self.queue and not any(
                        t.status == RUNNABLE for t in self.threads[1:]))
            except SimAbort:
                fut = None
        finally:
            sys.settrace(old)
            L2Future.sim = None
            self._abort_all()
            for t in self.threads[1:]:
                t.thread.join(2.0)
        if self.fatal is not None:
            raise self.fatal
        return fut


class ThreadSimExecutor:
    """Drop-in for ThreadPoolRuntime._inner under ThreadSim."""

    def __init__(self, sim):
        self.sim = sim

    def submit(self, fn, /, *args, **kwargs):
        return self.sim.submit(fn, args, kwargs)

    def shutdown(self, wait=True, **kw):
        pass
