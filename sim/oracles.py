"""Oracles: functions of (expected, actual outcome, event log).

Each returns a list of ``Violation(property ids, oracle_id, key, detail)``.
``key`` is a small canonical tuple used for known-finding matching; it is
built only from facts that identify *what* failed (never seeds, generated
names or message wording).
"""
import json
import math


class Violation:
    __slots__ = ("props", "oracle", "key", "detail")

    def __init__(self, props, oracle, key, detail=""):
        self.props = tuple(props)
        self.oracle = oracle
        self.key = tuple(key)
        self.detail = detail

    def ident(self):
        return (self.oracle, self.key)

    def to_json(self):
        return {
            "props": list(self.props),
            "oracle": self.oracle,
            "key": list(self.key),
            "detail": self.detail,
        }

    def __repr__(self):
        return "Violation(%s %s %s %s)" % (
            ",".join(self.props), self.oracle, self.key, self.detail[:200]
        )


# --------------------------------------------------------------------------
# data / errors against the model  (C04, C08)
# --------------------------------------------------------------------------
def first_diff(exp, act, path=()):
    """Return (kind, path) of the first difference between the expected and
    actual ordered data, or None.  kind: key-order|value|missing|extra|type."""
    if isinstance(exp, dict):
        if not isinstance(act, dict):
            return ("type", path)
        ek, ak = list(exp.keys()), list(act.keys())
        if ek != ak:
            if sorted(ek) == sorted(ak):
                return ("key-order", path)
            for k in ek:
                if k not in act:
                    return ("missing", path + (k,))
            return ("extra", path)
        for k in ek:
            d = first_diff(exp[k], act[k], path + (k,))
            if d:
                return d
        return None
    if isinstance(exp, list):
        if not isinstance(act, list):
            return ("type", path)
        if len(exp) != len(act):
            return ("missing" if len(act) < len(exp) else "extra", path)
        for i, (e, a) in enumerate(zip(exp, act)):
            d = first_diff(e, a, path + (i,))
            if d:
                return d
        return None
    if isinstance(act, (dict, list)):
        return ("type", path)
    if type(exp) is not type(act):
        return ("value", path)
    if isinstance(exp, float) and math.isnan(exp):
        return None if math.isnan(act) else ("value", path)
    if exp != act:
        return ("value", path)
    if isinstance(exp, float) and exp == 0.0 and \
            math.copysign(1.0, exp) != math.copysign(1.0, act):
        return ("value", path)  # 0.0 and -0.0 are different JSON texts
    return None


def under_any(path, prefixes):
    """``path`` lies strictly below one of ``prefixes``."""
    if path is None:
        return False
    path = tuple(path)
    return any(len(path) > len(z) and path[:len(z)] == tuple(z)
               for z in prefixes)


def actual_errors(result, ignore_under=()):
    """Normalise GraphQLResult.errors through their response dictionaries.
    Errors reported from below ``ignore_under`` (rows of a lazily produced list
    whose iteration failed afterwards: the list is null, what its rows
    reported is not modelled) are left out."""
    out = []
    for err in result.errors:
        d = err.to_dict()
        if ignore_under and under_any(d.get("path"), ignore_under):
            continue
        locs = frozenset(
            (l.get("line"), l.get("column")) for l in d.get("locations", [])
        )
        path = d.get("path")
        out.append({
            "path": tuple(path) if path is not None else None,
            "message": d.get("message"),
            "locs": locs,
            "ext": d.get("extensions"),
            "raw": d,
        })
    return out


def check_response(props, config, exp, result, locations=True,
                   line_shift=0):
    """Ordered data and error multiset against the model.  ``locations`` is
    false for documents parsed without location tracking."""
    out = []
    d = first_diff(exp.data, result.data)
    if d:
        out.append(Violation(
            props, "data_mismatch", (config, d[0]),
            "first difference (%s) at %r" % (d[0], d[1]),
        ))
    acts = actual_errors(result, getattr(exp, "lazy_failed", ()))
    if line_shift:
        # the same document submitted with ``line_shift`` more leading line
        # breaks: positions are those of THIS request's text
        for a in acts:
            a["locs"] = frozenset((ln - line_shift if ln else ln, col)
                                  for ln, col in a["locs"])
    by_path = {}
    for a in acts:
        if a["path"] in by_path:
            out.append(Violation(
                props, "error_multiset", (config, "extra", "duplicate-path"),
                "two errors carry path %r" % (a["path"],),
            ))
        by_path.setdefault(a["path"], a)
    seen = set()
    for e in exp.errors:
        a = by_path.get(e["path"])
        if a is None:
            out.append(Violation(
                props, "error_multiset", (config, "missing", e["kind"]),
                "no error for path %r" % (e["path"],),
            ))
            continue
        seen.add(e["path"])
        if e["kind"] == "err":
            if a["message"] != e["message"]:
                out.append(Violation(
                    props, "error_multiset", (config, "message", "err"),
                    "path %r: message %r" % (e["path"], a["message"]),
                ))
            if locations and not (e["first"] in a["locs"]
                                  and a["locs"] <= e["group"]):
                out.append(Violation(
                    props, "error_multiset", (config, "location", "err"),
                    "path %r: locations %r, field at %r" % (
                        e["path"], sorted(a["locs"]), e["first"]),
                ))
            if (a["ext"] or None) != (e["ext"] or None):
                out.append(Violation(
                    props, "error_multiset", (config, "extensions", "err"),
                    "path %r: extensions %r" % (e["path"], a["ext"]),
                ))
        else:
            if locations and (not a["locs"]
                              or not (a["locs"] <= e["group"])):
                out.append(Violation(
                    props, "error_multiset", (config, "location", "nonnull"),
                    "path %r: locations %r not within %r" % (
                        e["path"], sorted(a["locs"]), sorted(e["group"])),
                ))
    for p, a in by_path.items():
        if p not in seen:
            out.append(Violation(
                props, "error_multiset", (config, "extra", "unexpected"),
                "unexpected error %r" % (a["raw"],),
            ))
    return out


# --------------------------------------------------------------------------
# C09: serial mutation order over the event history
# --------------------------------------------------------------------------
_FIELD_EVENTS = ("rs", "re", "rx", "rb", "field_start", "field_end",
                 "mw_enter", "mw_exit")


def check_serial(config, exp, events, req_id=None):
    out = []
    first = {}
    last = {}
    first_rs = {}
    for gseq, _vt, _actor, kind, path, payload in events:
        if path is None or kind not in _FIELD_EVENTS or not path:
            continue
        if req_id is not None:
            rid = payload[1] if isinstance(payload, tuple) else payload
            if rid != req_id:
                continue
        k = path[0]
        if k not in first:
            first[k] = (gseq, kind)
        last[k] = (gseq, kind, path)
        if kind == "rs" and k not in first_rs:
            first_rs[k] = gseq
    # every event (resolver, hook, middleware) under an earlier root precedes
    # the first *resolver invocation* under a later root
    rs_under = {}
    for gseq, _vt, _actor, kind, path, payload in events:
        if kind == "rs" and path:
            if req_id is not None:
                rid = payload[1] if isinstance(payload, tuple) else payload
                if rid != req_id:
                    continue
            rs_under.setdefault(path[0], gseq)
    keys = [k for k in exp.root_keys]
    for i in range(len(keys)):
        for j in range(i + 1, len(keys)):
            ki, kj = keys[i], keys[j]
            if ki not in last or kj not in rs_under:
                continue
            if last[ki][0] > rs_under[kj]:
                key = (config, "resolver-start")
                lp = tuple(last[ki][2])
                if any(len(lp) > len(z) and lp[:len(z)] == tuple(z)
                       for z in getattr(exp, "lazy_failed", ())):
                    # what is still running belongs to rows of a lazily
                    # produced list whose iteration failed afterwards
                    key = (config, "resolver-start",
                           "rows-of-a-failed-lazy-list")
                out.append(Violation(
                    ("C09",), "serial_order", key,
                    "root %r still active (last event %s@%d) when a resolver "
                    "under root %r was invoked (@%d)" % (
                        ki, last[ki][1], last[ki][0], kj, rs_under[kj])))
                return out
    invoked_roots = [p[0] for p in exp.invoked if len(p) == 1]
    for k in invoked_roots:
        if k not in first_rs:
            out.append(Violation(
                ("C09",), "serial_continue", (config,),
                "root field %r was never invoked" % (k,),
            ))
            break
    return out


# --------------------------------------------------------------------------
# C10: response format
# --------------------------------------------------------------------------
def _walk(data, path):
    cur = data
    for p in path:
        if isinstance(p, int):
            if not isinstance(cur, list) or p >= len(cur):
                return False, None
            cur = cur[p]
        else:
            if not isinstance(cur, dict) or p not in cur:
                return False, None
            cur = cur[p]
    return True, cur


def _null_positions(data, path=()):
    if data is None:
        yield path
    elif isinstance(data, dict):
        for k, v in data.items():
            yield from _null_positions(v, path + (k,))
    elif isinstance(data, list):
        for i, v in enumerate(data):
            yield from _null_positions(v, path + (i,))


def check_wellformed(stage, config, result, text, exp=None):
    """Response-format invariants on one GraphQLResult.  ``stage`` names the
    outcome class (syntax / validation / variables / operation / execution)."""
    out = []
    props = ("C10",)
    try:
        resp = result.response()
    except Exception as err:  # noqa: B902
        out.append(Violation(
            props, "entrypoint_raised", (stage, "response", type(err).__name__),
            "response() raised %r" % (err,)))
        return out
    try:
        dumped = json.dumps(resp, allow_nan=False)
    except (ValueError, TypeError) as err:
        out.append(Violation(
            props, "not_json", (stage, _offender(resp)),
            "strict JSON serialisation failed: %s" % err))
        dumped = None
    if dumped is not None:
        try:
            again = json.loads(result.json())
            if again != json.loads(dumped):
                out.append(Violation(
                    props, "not_json", (stage, "json-differs"),
                    "json() and response() disagree"))
        except (ValueError, TypeError) as err:
            out.append(Violation(
                props, "not_json", (stage, "json()"),
                "json() failed: %s" % err))
    lines = text.split("\n") if isinstance(text, str) else None
    errors = resp.get("errors")
    if "errors" in resp:
        if not isinstance(errors, list) or not errors:
            out.append(Violation(
                props, "error_shape", (stage, "errors", "empty-or-not-list"),
                repr(errors)[:200]))
            errors = []
    for e in errors or []:
        if not isinstance(e, dict):
            out.append(Violation(
                props, "error_shape", (stage, "error", "not-dict"), repr(e)))
            continue
        if not isinstance(e.get("message"), str):
            out.append(Violation(
                props, "error_shape", (stage, "message", "not-str"),
                repr(e)[:200]))
        if "locations" in e:
            locs = e["locations"]
            if not isinstance(locs, list) or not locs:
                out.append(Violation(
                    props, "error_shape", (stage, "locations", "empty"),
                    repr(e)[:200]))
                locs = []
            for l in locs:
                bads = []
                if not isinstance(l, dict):
                    bads.append("not-dict")
                else:
                    extra = sorted(set(l) - {"line", "column"})
                    if extra:
                        bads.append("key:" + ",".join(extra))
                    if extra == ["columne"] and "column" not in l:
                        # the listed misspelling: the VALUES are judged all
                        # the same (a wrong line or column under the misspelt
                        # key is another defect, not this one)
                        l = {"line": l.get("line"), "column": l["columne"]}
                        extra = []
                    if extra:
                        pass
                    elif not (
                        type(l.get("line")) is int
                        and type(l.get("column")) is int
                        and l["line"] >= 1 and l["column"] >= 1
                    ):
                        bads.append("not-1-based-int")
                    elif lines is not None and not (
                        l["line"] <= len(lines)
                        and l["column"] <= len(lines[l["line"] - 1]) + 1
                    ):
                        bads.append("outside-document")
                for bad in bads:
                    out.append(Violation(
                        props, "error_shape", (stage, "locations", bad),
                        repr(l)))
        if "path" in e:
            p = e["path"]
            if not isinstance(p, list) or not all(
                (type(x) is int or isinstance(x, str)) for x in p
            ):
                out.append(Violation(
                    props, "error_shape", (stage, "path", "not-keys-indices"),
                    repr(p)))
            elif exp is not None and under_any(
                    p, getattr(exp, "lazy_failed", ())):
                pass  # reported by a row of a list that was nulled afterwards
            elif "data" in resp:
                ok, val = _walk(resp["data"], p)
                if not ok:
                    out.append(Violation(
                        props, "error_shape", (stage, "path", "dangling"),
                        "path %r does not address data" % (p,)))
                elif val is not None:
                    out.append(Violation(
                        props, "error_shape", (stage, "path", "non-null"),
                        "path %r addresses a non-null value" % (p,)))
    if stage in ("syntax", "validation") and "data" in resp:
        out.append(Violation(
            props, "data_presence", (stage,), "data present: %r"
            % (resp["data"],)))
    if exp is not None and "data" in resp and stage == "execution":
        # every null at a non-null position / F1 field  <->  one error
        want = {}
        for e in exp.errors:
            want[e["path"]] = want.get(e["path"], 0) + 1
        got = {}
        for e in errors or []:
            if isinstance(e, dict) and isinstance(e.get("path"), list):
                k = tuple(e["path"])
                if under_any(k, getattr(exp, "lazy_failed", ())):
                    continue
                got[k] = got.get(k, 0) + 1
        for k, n in want.items():
            if got.get(k, 0) != n:
                out.append(Violation(
                    props, "null_error_bijection",
                    (config, "null-without-error" if got.get(k, 0) < n
                     else "duplicate-error"),
                    "position %r: %d error(s), expected %d" % (
                        k, got.get(k, 0), n)))
        for k, n in got.items():
            if k not in want:
                out.append(Violation(
                    props, "null_error_bijection",
                    (config, "error-without-null"),
                    "error with path %r but no failing position there" % (k,)))
    return out


def _offender(obj):
    """Python type name of the first value json cannot emit strictly."""
    if isinstance(obj, dict):
        for v in obj.values():
            r = _offender(v)
            if r:
                return r
        return None
    if isinstance(obj, (list, tuple)):
        for v in obj:
            r = _offender(v)
            if r:
                return r
        return None
    if isinstance(obj, float) and (math.isnan(obj) or math.isinf(obj)):
        return "nonfinite-float"
    if obj is None or isinstance(obj, (str, int, float, bool)):
        return None
    return type(obj).__name__


# --------------------------------------------------------------------------
# C16: hook history
# --------------------------------------------------------------------------
_STAGES = ("query", "parsing", "validation", "execution")


def check_hooks(config, outcome_class, exp, events, tags, mw_tags,
                crashed=False, req_id=0, strict_resolved=True,
                skip_stages=False, preparsed=False):
    """``tags``: instrumentation tags in MultiInstrumentation order.
    ``mw_tags``: middleware tags in list order (last is outermost).
    ``outcome_class``: syntax-error | validation-error | variables-error |
    operation-error | executed | crashed."""
    out = []
    props = ("C16",)
    per_tag = {t: [] for t in tags}
    all_hooks = []
    body = {}
    mw = {}
    for gseq, _vt, _actor, kind, path, payload in events:
        if kind.endswith("_start") or kind.endswith("_end"):
            tag, rid = payload
            if rid != req_id:
                continue
            if tag in per_tag:
                per_tag[tag].append((gseq, kind, path))
            all_hooks.append((gseq, kind, path, tag))
        elif kind in ("rs", "re", "rx", "rb"):
            if payload != req_id:
                continue
            body.setdefault(path, []).append((gseq, kind))
        elif kind in ("mw_enter", "mw_exit"):
            tag, rid = payload
            if rid != req_id:
                continue
            mw.setdefault(path, []).append((gseq, kind, tag))

    # ---- partial stack members see exactly what R0 sees of their hooks ---
    if tags and not crashed:
        ref = sorted((k, repr(p)) for _, k, p in per_tag.get(tags[0], []))
        for tag in tags[1:]:
            if tag[0] == "R":
                continue
            edge = "_start" if tag[0] == "S" else "_end"
            want = [x for x in ref if x[0].endswith(edge)]
            got = sorted((k, repr(p)) for _, k, p in per_tag[tag])
            if got != want:
                missing = [x for x in want if x not in got]
                extra = [x for x in got if x not in want]
                out.append(Violation(
                    props, "multi_order",
                    ("partial-member", "missing" if missing else "extra"),
                    "stack member %s (implements only *%s hooks) saw %d hooks"
                    ", the full recorder %d; first difference %r" % (
                        tag, edge, len(got), len(want),
                        (missing or extra)[0])))
                break

    # ---- stage hooks: balanced, nested, at most once, end after start ----
    for tag in tags:
        if tag[0] != "R" or skip_stages:
            continue
        hist = [(k, p) for _, k, p in per_tag[tag] if p is None]
        stack = []
        seen = {}
        for kind, _ in hist:
            stage, _, edge = kind.rpartition("_")
            seen[(stage, edge)] = seen.get((stage, edge), 0) + 1
            if seen[(stage, edge)] > 1:
                out.append(Violation(
                    props, "stage_nesting", (outcome_class, stage, "repeated"),
                    "%s_%s fired %d times" % (stage, edge,
                                              seen[(stage, edge)])))
            if edge == "start":
                stack.append(stage)
            else:
                if not stack or stack[-1] != stage:
                    pair = "%s/%s" % (stack[-1] if stack else "-", stage)
                    out.append(Violation(
                        props, "stage_nesting",
                        (outcome_class, pair, "crossed"),
                        "history %s" % [k for k, _ in hist]))
                    if stage in stack:
                        stack.remove(stage)
                else:
                    stack.pop()
        if stack and not crashed:
            out.append(Violation(
                props, "stage_nesting",
                (outcome_class, "/".join(stack), "end-missing"),
                "history %s" % [k for k, _ in hist]))
        if not crashed:
            # which stages must have run
            need = {"query"}
            if outcome_class != "preparsed" and not preparsed:
                need.add("parsing")
            if outcome_class != "syntax-error":
                need.add("validation")
            if outcome_class in ("executed", "preparsed", "executed-unknown"):
                need.add("execution")
            for stage in need:
                if seen.get((stage, "start"), 0) != 1:
                    out.append(Violation(
                        props, "stage_nesting",
                        (outcome_class, stage, "start-missing"),
                        "history %s" % [k for k, _ in hist]))
            if outcome_class == "syntax-error":
                for stage in ("validation", "execution"):
                    if seen.get((stage, "start"), 0):
                        out.append(Violation(
                            props, "stage_nesting",
                            (outcome_class, stage, "unexpected"),
                            "history %s" % [k for k, _ in hist]))

    # ---- MultiInstrumentation order: starts in order, ends reversed -------
    # (grouped by hook and path, not by adjacency: under real threads the
    # hooks of two fields may interleave in the global log)
    if len(tags) > 1 and not crashed:
        order = {}
        for gseq, kind, path, tag in all_hooks:
            order.setdefault((kind, path), []).append(tag)
        for (kind, path), got in order.items():
            if kind.endswith("_start"):
                want = [t for t in tags if t[0] in "RS"]
            else:
                want = [t for t in tags if t[0] in "RE"][::-1]
            if got != want:
                out.append(Violation(
                    props, "multi_order", (kind,),
                    "hook %s%s fired for %s, expected order %s" % (
                        kind, "" if path is None else " %r" % (path,), got,
                        want)))
                break

    # ---- field hooks -------------------------------------------------------
    if exp is not None and outcome_class in ("executed", "crashed",
                                             "preparsed"):
        tag0 = tags[0] if tags else None
        starts, ends = {}, {}
        for gseq, kind, path in per_tag.get(tag0, []):
            if kind == "field_start":
                starts.setdefault(path, []).append(gseq)
            elif kind == "field_end":
                ends.setdefault(path, []).append(gseq)
        resolved = set(exp.resolved)
        if not crashed:
            for p in exp.resolved:
                ns, ne = len(starts.get(p, ())), len(ends.get(p, ()))
                failed = any(k in ("rx",) for _, k in body.get(p, ()))
                fo = "resolver-error" if failed else "ok"
                if ns != 1:
                    out.append(Violation(
                        props, "field_hooks", (config, "start", "count", fo),
                        "path %r: %d field_start" % (p, ns)))
                if ne != 1:
                    out.append(Violation(
                        props, "field_hooks", (config, "end", "count", fo),
                        "path %r: %d field_end" % (p, ne)))
                if ns == 1 and ne == 1 and p in body:
                    b = body[p]
                    bs = [g for g, k in b if k == "rs"]
                    be = [g for g, k in b if k in ("re", "rx")]
                    if bs and starts[p][0] > bs[0]:
                        out.append(Violation(
                            props, "field_hooks",
                            (config, "start", "after-resolver", fo),
                            "path %r" % (p,)))
                    if be and ends[p][0] < be[-1]:
                        out.append(Violation(
                            props, "field_hooks",
                            (config, "end", "before-resolver-finished", fo),
                            "path %r" % (p,)))
                if ns == 1 and ne == 1 and starts[p][0] > ends[p][0]:
                    out.append(Violation(
                        props, "field_hooks", (config, "end", "before-start",
                                               fo),
                        "path %r" % (p,)))
        else:
            for p, lst in list(starts.items()) + list(ends.items()):
                if len(lst) > 1:
                    out.append(Violation(
                        props, "field_hooks", (config, "any", "repeated",
                                               "crashed"),
                        "path %r: %d" % (p, len(lst))))
        lazy = getattr(exp, "lazy_failed", ())
        for p, lst in list(starts.items()) + list(ends.items()):
            # fields of rows that a lazily produced list handed over before
            # its iteration failed: resolved or not, never more than once
            if under_any(p, lazy) and len(lst) > 1:
                out.append(Violation(
                    props, "field_hooks", (config, "any", "repeated",
                                           "row-of-failed-lazy-list"),
                    "path %r: %d" % (p, len(lst))))
        if strict_resolved:
            for p in list(starts) + list(ends):
                if p not in resolved and not under_any(p, lazy):
                    out.append(Violation(
                        props, "field_hooks", (config, "any", "unexpected-path",
                                               "-"),
                        "hook for path %r which the model does not resolve"
                        % (p,)))
                    break
        # resolver bodies run exactly once per invoked field
        if not crashed:
            for p in exp.invoked:
                n = len([1 for _, k in body.get(p, ()) if k == "rs"])
                if n != 1:
                    out.append(Violation(
                        props, "field_hooks", (config, "resolver", "count",
                                               str(min(n, 2))),
                        "path %r: resolver body ran %d times" % (p, n)))

        # ---- middlewares -------------------------------------------------
        if mw_tags and not crashed:
            want_enter = list(mw_tags)[::-1]  # last in list is outermost
            for p in exp.resolved:
                if p in exp.uncalled:
                    continue  # argument coercion failed: nothing is called
                seq = mw.get(p, [])
                enters = [t for _, k, t in seq if k == "mw_enter"]
                exits = [t for _, k, t in seq if k == "mw_exit"]
                if enters != want_enter:
                    out.append(Violation(
                        props, "middleware", (config, "enter-order-or-count"),
                        "path %r: entered %s, expected %s" % (
                            p, enters, want_enter)))
                    break
                # exit *order* is not demanded: a plain middleware around a
                # deferred resolver returns as soon as it holds the awaitable
                if sorted(exits) != sorted(want_enter):
                    out.append(Violation(
                        props, "middleware", (config, "exit-count"),
                        "path %r: exited %s" % (p, exits)))
                    break
                # each resolver body inside the innermost middleware's enter
                b = [g for g, k in body.get(p, ()) if k == "rs"]
                ent = [g for g, k, t in seq if k == "mw_enter"]
                if b and ent and b[0] < ent[-1]:
                    out.append(Violation(
                        props, "middleware", (config, "resolver-before-enter"),
                        "path %r" % (p,)))
                    break
    return out
