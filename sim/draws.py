"""One source of nondeterminism for a whole simulated run.

Every choice (workload, fault placement, latencies, tie-breaks, pre-emption)
is a call to ``Stream.below(k, label)``.  Streams are named sub-streams of one
``Draws`` object so that the schedule of one configuration can be shrunk
without shifting the choices of another.  In seed mode every stream is a
``random.Random`` derived from (seed, stream name); in replay mode the values
come from the recorded lists (clamped to ``k-1``, ``0`` when exhausted).

Convention: value 0 is always the *simplest* alternative (no fault, no delay,
FIFO order, smallest size) so that shrinking a draw list moves towards a
simple run.

Nothing in here reads a clock, the environment or a hash-ordered container.
"""
import hashlib
import random


def derive_seed(*parts):
    h = hashlib.sha256(repr(parts).encode("utf-8")).digest()
    return int.from_bytes(h[:8], "big")


class Stream:
    __slots__ = ("name", "_rng", "_replay", "_pos", "values", "labels")

    def __init__(self, name, rng=None, replay=None):
        self.name = name
        self._rng = rng
        self._replay = replay
        self._pos = 0
        self.values = []
        self.labels = []

    def below(self, k, label=""):
        """Return an int in [0, k). k <= 1 returns 0 without consuming."""
        if k <= 1:
            return 0
        if self._replay is not None:
            if self._pos < len(self._replay):
                v = self._replay[self._pos]
                if v >= k:
                    v = k - 1
                elif v < 0:
                    v = 0
            else:
                v = 0
            self._pos += 1
        else:
            v = self._rng.randrange(k)
        self.values.append(v)
        self.labels.append(label)
        return v

    def chance(self, num, den, label=""):
        """True with probability num/den; the *true* branch is the non-zero
        draw so that shrinking removes it."""
        return self.below(den, label) >= den - num

    def pick(self, seq, label=""):
        return seq[self.below(len(seq), label)]

    def weighted(self, weights, label=""):
        """Index drawn with the given integer weights; index 0 should be the
        simplest alternative.  Encoded as one draw over sum(weights) whose
        value 0 maps to index 0."""
        total = sum(weights)
        v = self.below(total, label)
        acc = 0
        for i, w in enumerate(weights):
            acc += w
            if v < acc:
                return i
        return len(weights) - 1


class Draws:
    """A bundle of named streams.  ``Draws.from_seed(n)`` or
    ``Draws.replay({name: [values]})``."""

    def __init__(self, seed=None, replay=None):
        self.seed = seed
        self._replay = replay
        self.streams = {}
        self.order = []

    @classmethod
    def from_seed(cls, seed):
        return cls(seed=seed)

    @classmethod
    def replay(cls, recorded):
        return cls(replay={k: list(v) for k, v in recorded.items()})

    def stream(self, name):
        s = self.streams.get(name)
        if s is None:
            if self._replay is not None:
                s = Stream(name, replay=self._replay.get(name, []))
            else:
                s = Stream(name, rng=random.Random(derive_seed(self.seed, name)))
            self.streams[name] = s
            self.order.append(name)
        return s

    def adopt(self, recorded):
        """Take over the recording made by another Draws instance that ran
        the same case (e.g. in a forked child)."""
        self.streams = {}
        self.order = []
        for name, values in recorded.items():
            st = Stream(name, replay=list(values))
            st.values = list(values)
            st.labels = [""] * len(values)
            self.streams[name] = st
            self.order.append(name)

    def recorded(self):
        """{stream name: [values]} for every stream that was opened, in the
        order of first use (insertion-ordered dict)."""
        return {n: list(self.streams[n].values) for n in self.order}

    def recorded_labels(self):
        return {n: list(self.streams[n].labels) for n in self.order}

    def total(self):
        return sum(len(self.streams[n].values) for n in self.order)


def shrink(recorded, still_fails, budget=1500, deadline=None, clock=None):
    """Delta-debug a {stream: [values]} recording.

    ``still_fails(candidate) -> bool`` re-executes a run in replay mode and
    says whether the *same violation class* is still produced.  Passes:
    drop whole streams' tails, delete blocks, zero values, then lower values.
    Returns the smallest recording found.  ``clock`` (a callable returning
    seconds) and ``deadline`` bound the wall time; the shrinker itself is
    deterministic given the answers of ``still_fails``.
    """
    cur = {k: list(v) for k, v in recorded.items()}
    calls = [0]

    def out_of_budget():
        if calls[0] >= budget:
            return True
        if deadline is not None and clock is not None and clock() > deadline:
            return True
        return False

    def attempt(cand):
        if out_of_budget():
            return False
        calls[0] += 1
        return still_fails(cand)

    def strip(c):
        # trailing zeros are implied (exhausted stream yields 0)
        out = {}
        for k, v in c.items():
            v = list(v)
            while v and v[-1] == 0:
                v.pop()
            out[k] = v
        return out

    cur = strip(cur)
    improved = True
    while improved and not out_of_budget():
        improved = False
        # 1. empty whole streams
        for name in list(cur):
            if cur[name]:
                cand = dict(cur)
                cand[name] = []
                if attempt(cand):
                    cur = strip(cand)
                    improved = True
        # 2. truncate tails / delete blocks
        for name in list(cur):
            size = 16
            while size >= 1:
                i = 0
                while i < len(cur[name]):
                    if out_of_budget():
                        break
                    vals = cur[name]
                    cand = dict(cur)
                    cand[name] = vals[:i] + vals[i + size:]
                    if cand[name] != vals and attempt(cand):
                        cur = strip(cand)
                        improved = True
                    else:
                        i += size
                size //= 2
        # 3. zero / lower individual values
        for name in list(cur):
            i = 0
            while i < len(cur[name]):
                if out_of_budget():
                    break
                v = cur[name][i]
                if v != 0:
                    done = False
                    for nv in (0, v // 2, v - 1):
                        if nv >= v or nv < 0:
                            continue
                        cand = dict(cur)
                        cand[name] = cur[name][:i] + [nv] + cur[name][i + 1:]
                        if attempt(cand):
                            cur = strip(cand)
                            improved = True
                            done = True
                            break
                    if done and i < len(cur[name]) and cur[name][i] != 0:
                        continue  # try lowering further
                i += 1
    return cur, calls[0]
