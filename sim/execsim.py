"""execsim engine: one *case* = schema + a history of requests, each executed
under several executor/runtime configurations and schedules, with every
oracle (C04, C08, C09, C10, C16) evaluated on every run.  A check reports only
the violations attributed to its own property; the workload profile decides
what each check emphasises.
"""
import datetime as _dt
import json

import py_gql.tracers as _tracers
from py_gql.exc import (
    ExecutionError,
    GraphQLSyntaxError,
    ValidationError,
    VariableCoercionError,
)
from py_gql.execution import MultiInstrumentation
from py_gql.lang import parse
from py_gql.utilities import introspection_query
from py_gql.validation import validate_ast

from . import oracles
from .draws import Draws
from .harness import (
    BOOM_CLASSES,
    Boom,
    Bundle,
    CONFIGS,
    MODE_OF,
    EndsOnlyRecorder,
    MiddlewareObject,
    Recorder,
    StartsOnlyRecorder,
    make_middleware,
    run_config,
    run_overlapped,
)
from .kernel import Kernel
from .model import expected_response
from .oracles import Violation
from .workload import FieldSel, OpGen, gen_schema, render
from .world import World

POLICIES = ("random", "pick", "fifo", "lifo", "zero", "inline")


class Discard(Exception):
    def __init__(self, why):
        super().__init__(why)
        self.why = why


class HarnessError(Exception):
    pass


PROFILES = {
    # weights / switches per check; see DESIGN.md section 4
    "C08": dict(nreq=(1, 2), mutation=(1, 3), variants=False, reps=2,
                configs="all", boom=(1, 3), overlap=True, l2=(1, 2),
                l2_reps=2, nonfinite=(1, 10), generr=True),
    "C09": dict(nreq=(1, 1), mutation=(1, 1), force_mutation=True,
                variants=False, reps=2, configs="all", boom=(1, 6),
                generr=True),
    "C04": dict(nreq=(2, 6), mutation=(1, 3), variants=False, reps=1,
                configs="one", boom=(0, 1), activities=True, overlap=True,
                generr=True),
    "C10": dict(nreq=(1, 2), mutation=(1, 4), variants=True, reps=1,
                configs="two", boom=(0, 1), nonfinite=(1, 6),
                corruption=True, shared_errors=True, badenum=True,
                generr=True),
    "C16": dict(nreq=(1, 2), mutation=(1, 3), variants=True, reps=1,
                configs="all", boom=(1, 8), stacks=True, overlap=True,
                l2=(1, 2), badenum=True, repeats=True, generr=True,
                shared_errors=True),
}


class _FakeDatetimeModule:
    """Stands in for the ``datetime`` module inside py_gql.tracers: utcnow()
    reads the virtual clock (plus an optional skew table, fault F7)."""

    def __init__(self, kernel_ref, skew=None):
        self._k = kernel_ref
        self._skew = skew or []
        self._n = 0
        outer = self

        class datetime(_dt.datetime):  # noqa: N801
            @classmethod
            def utcnow(cls):
                k = outer._k()
                off = 0.0
                if outer._skew:
                    off = outer._skew[outer._n % len(outer._skew)]
                outer._n += 1
                return _dt.datetime(2020, 1, 1) + _dt.timedelta(
                    seconds=k.now + off
                )

        self.datetime = datetime
        self.timedelta = _dt.timedelta


class Request:
    __slots__ = ("op", "text", "variables", "operation_name", "wseed",
                 "faults", "exp", "variant", "nonfinite", "configs",
                 "ninstr", "mws", "tracer", "skew", "preparsed", "index",
                 "noloc", "line_shift", "base_text", "validators_ok",
                 "in_except",
                 "gen", "document", "repeat_of", "exp_snapshot", "l2", "root",
                 "unmodelled")


def _gen_request(draws, spec, bundle, idx, profile, want_mut, tier="quick",
                 prev=None):
    rs = draws.stream("req%d" % idx)
    req = Request()
    req.index = idx
    req.document = None
    req.unmodelled = None
    req.repeat_of = None
    if prev is not None and prev.variant == "normal" and \
            (profile.get("activities") or profile.get("corruption")
             or profile.get("repeats")) and \
            rs.chance(1, 3, "repeat"):
        # The same document again with other variables (and another world):
        # what a server with a parsed-document cache does all day.
        req.repeat_of = prev.index
        req.gen = prev.gen
        req.gen.revary(rs)
        req.op = prev.op
        req.variables = dict(req.op.variables)
        req.operation_name = prev.operation_name
        req.variant = "normal"
        req.noloc = False
        req.preparsed = rs.chance(2, 3, "same_document_object")
        if req.preparsed:
            if prev.document is None:
                prev.document = parse(prev.text)
            req.document = prev.document
        req.wseed = rs.below(1 << 30, "wseed")
        req.nonfinite = False
        req.unmodelled = None
        req.line_shift = 0
        req.base_text = prev.base_text
        req.text = prev.base_text
        if not req.preparsed and rs.chance(1, 3, "ws_variant"):
            # ... or the same text behind a few more line breaks (and with
            # trailing blanks): every location moves down accordingly
            req.line_shift = 1 + rs.below(4, "ws_lines")
            req.text = "\n" * req.line_shift + prev.base_text + " \n\t"
        elif req.preparsed and prev.line_shift:
            req.line_shift = prev.line_shift  # the very same Document object
            req.text = prev.text
        if rs.chance(1, 3, "policy"):
            # the same document again, under a stricter validator list that
            # refuses it: must be refused, whatever was accepted before
            req.variant = "policy"
        return _finish_request(draws, spec, req, idx, profile, rs, tier)
    kind = "query"
    if want_mut and (profile.get("force_mutation")
                     or rs.chance(1, 2, "opkind")):
        kind = "mutation"
    req.variant = "normal"
    req.preparsed = False
    req.noloc = False
    req.line_shift = 0
    if profile.get("variants") and rs.chance(1, 3, "variant"):
        # "truncated anywhere" and "corrupted in transit" reach the most
        # lexer / parser states per request: weighted up
        req.variant = ("syntax", "validation", "variables", "opname",
                       "truncate", "flip", "preparsed", "dirnull")[
            rs.weighted((1, 2, 2, 1, 4, 3, 1, 1), "variant_kind")]
    gen = OpGen(rs, spec, max_depth=2 + rs.below(2, "depth"),
                budget=8 + 8 * rs.below(3, "budget"),
                features={"prefer_vars": req.variant == "variables"})
    op = gen.generate(kind)
    req.gen = gen
    if req.variant == "validation":
        where = op.sel
        how = rs.below(6, "invalid_how")
        if how == 5 and not op.fragments:
            how = 1
        if how == 0:
            bad = _bad_field()
        elif how == 5:
            # a fragment definition lost on the way (its spreads stay): the
            # generator names fragments F0, F1, ... in every request, so an
            # EARLIER request of this process has usually defined that name
            lost = sorted(op.fragments)[rs.below(len(op.fragments),
                                                 "lost_fragment")]
            del op.fragments[lost]
            bad = None
        elif how == 4:
            # a fragment cycle that a depth-first search only meets AFTER a
            # fragment it has already visited: P -> S, Q, R; S -> Q; R -> P
            from .workload import Spread
            tn = FieldSel("__typename")
            tn.ptype = op.root_type
            op.fragments["CyQ"] = (op.root_type, [tn])
            op.fragments["CyS"] = (op.root_type, [Spread("CyQ")])
            op.fragments["CyR"] = (op.root_type, [Spread("CyP")])
            op.fragments["CyP"] = (op.root_type, [
                Spread("CyS"), Spread("CyQ"), Spread("CyR")])
            bad = Spread("CyP")
        else:
            # a spread of a fragment that does not exist -- named after
            # nothing, after the operation itself, or after the other
            # operation of the document
            from .workload import Spread
            nm = ("Nope", "Main", "Other")[how - 1]
            if nm == "Main":
                op.name = "Main"
            bad = Spread(nm)
        if bad is not None:
            where.insert(rs.below(len(where) + 1, "bad_at"), bad)
        if rs.chance(1, 3, "invalid_and_opname"):
            # two stages could fail: validation comes first, and its outcome
            # (errors, no data key) is what must be reported
            op.operation_name = "NoSuchOperation"
    text = render(op, rs.below(4, "layout"), bool(rs.below(2, "frags_first")))
    req.op = op
    req.variables = dict(op.variables)
    req.operation_name = op.operation_name
    if req.variant in ("truncate", "flip") and rs.chance(1, 2, "uescape"):
        # the same characters written as \uXXXX escapes (surrogate pairs for
        # astral ones): what a JSON-minded client sends.  Only for requests
        # whose outcome class is py-gql's own call.
        text = _u_escape(_inject_astral(text, rs))
    if req.variant == "syntax":
        text = (text.rstrip()[:-1], text + " }", text + ' "', "{ ")[
            rs.below(4, "syntax_how")]
    elif req.variant == "truncate":
        # bias half of the cuts to land right after a character that opens
        # in-flight lexer state (escape, string, number, spread, variable...)
        hot = [i + 1 for i, ch in enumerate(text) if ch in '\\"$@.:([{#-eu']
        hotter = [i + 1 for i, ch in enumerate(text) if ch in '\\"']
        # ... and every position inside a \uXXXX escape
        for i in range(len(text) - 1):
            if text[i] == "\\" and text[i + 1] == "u":
                hotter.extend(range(i + 2, min(len(text), i + 7)))
        after_bs = [i + 1 for i, ch in enumerate(text) if ch == "\\"]
        in_block = _block_string_backslashes(text)
        if in_block and rs.chance(1, 3, "cut_in_block_string"):
            # ... of a block string, where the only escape is \"""
            text = text[: in_block[rs.below(len(in_block), "cut_at")]]
        elif after_bs and rs.chance(1, 4, "cut_after_backslash"):
            # right after a backslash: the lexer is inside an escape
            text = text[: after_bs[rs.below(len(after_bs), "cut_at")]]
        elif hotter and rs.chance(1, 4, "cut_hotter"):
            # inside / at the edge of string literals and escapes
            text = text[: hotter[rs.below(len(hotter), "cut_at")]]
        elif hot and rs.chance(1, 2, "cut_hot"):
            text = text[: hot[rs.below(len(hot), "cut_at")]]
        else:
            text = text[: rs.below(len(text) + 1, "cut")]
    elif req.variant == "flip":
        pos = rs.below(max(1, len(text)), "flip_at")
        inside = [j for i in range(len(text) - 1)
                  if text[i] == "\\" and text[i + 1] == "u"
                  for j in range(i + 1, min(len(text), i + 6))]
        if inside and rs.chance(1, 2, "flip_in_escape"):
            pos = inside[rs.below(len(inside), "flip_escape_at")]
        elif '"' in text and rs.chance(1, 5, "flip_quote"):
            # a quote lost or turned into a line break: the string literal runs
            # into a line terminator (or into the rest of the document), and
            # the error sits exactly ON a line terminator
            quotes = [i for i, c in enumerate(text) if c == '"']
            pos = quotes[rs.below(len(quotes), "flip_quote_at")]
            ch = ("\n", "\r\n", "", "\r", "\n\n")[rs.below(5, "flip_quote_ch")]
            text = text[:pos] + ch + text[pos + 1:]
            pos = None
        elif rs.chance(1, 3, "flip_in_name"):
            # one character of a NAME replaced by another name character: the
            # text still parses, and names a field / type / argument /
            # variable / directive / fragment that does not exist
            names = [i for i, c in enumerate(text)
                     if c.isalnum() and c.isascii()]
            if names:
                pos = names[rs.below(len(names), "flip_name_at")]
                ch = "0xZ_"[rs.below(4, "flip_name_ch")]
                text = text[:pos] + ch + text[pos + 1:]
                pos = None
        if pos is not None:
            ch = ('"', "\\", "{", "}", "$", "@", "é", "#", "!", "0")[
                rs.below(10, "flip_ch")]
            text = text[:pos] + ch + text[pos + 1:]
    elif req.variant == "variables":
        if not _corrupt_variables(req, rs):
            req.variant = "normal"
    elif req.variant == "dirnull":
        # an explicit null for the nullable, defaulted variable feeding an
        # ``if:`` of @skip / @include.  What the answer should be is not
        # stated anywhere (not generated as a modelled request); that there
        # IS a well-formed answer is C10's business.
        dvars = [n for n, v in op.vars.items()
                 if v.is_dir and not v.tstr.endswith("!")]
        if dvars:
            req.variables[dvars[rs.below(len(dvars), "dirnull_var")]] = None
        else:
            req.variant = "normal"
    elif req.variant == "opname":
        req.operation_name = "Nope"
    elif req.variant == "preparsed":
        req.variant = "normal"
        req.preparsed = True
        # parse(..., no_location=True): a document without source positions
        req.noloc = rs.chance(1, 3, "no_location")
    req.base_text = text
    if req.variant == "normal" and not req.preparsed and \
            rs.chance(1, 6, "ws_first"):
        # leading line breaks / trailing blanks around the document
        req.line_shift = 1 + rs.below(4, "ws_lines")
        text = "\n" * req.line_shift + text + " \n\t"
    req.text = text
    req.wseed = rs.below(1 << 30, "wseed")
    # (only uncorrupted requests get non-finite floats: for those the model
    # knows whether a Float position holds one, and a RuntimeError -- the
    # library's way of refusing an unserialisable resolver value -- is then
    # the expected outcome rather than an escaped exception)
    req.nonfinite = (req.variant == "normal"
                     and bool(profile.get("nonfinite"))
                     and rs.chance(*profile["nonfinite"], "nonfinite"))

    # validity of the *uncorrupted* operation is py-gql's own call; a
    # rejection is a discard, never a violation (C05/C06 are not claimed)
    if req.variant in ("normal", "variables", "opname"):
        try:
            doc = parse(text)
            vr = validate_ast(bundle.schema, doc)
        except Exception as err:  # noqa: B902
            raise Discard("validator-crash:%s" % type(err).__name__)
        if not vr:
            raise Discard("validator-reject")

    return _finish_request(draws, spec, req, idx, profile, rs, tier)


def _finish_request(draws, spec, req, idx, profile, rs, tier):
    op = req.op
    # a root value handed to the entry point (root resolvers receive it)
    req.root = None
    if spec.root_default:
        # an application object whose methods serve (some of) the root fields
        from .harness import make_default_attr
        from .world import Obj
        oid = "ROOT%d" % rs.below(3, "root_id")
        req.root = Obj(op.root_type, oid, {
            f: make_default_attr(op.root_type, f, oid)
            for f in spec.objects[op.root_type]["fields"]
            if spec.behaviours.get((op.root_type, f)) == "default"})
    elif rs.chance(1, 3, "root_value"):
        req.root = {"__id__": "ROOT%d" % rs.below(3, "root_id"),
                    "__typename__": op.root_type}
    if req.variant == "normal" and rs.chance(1, 4, "extra_variable"):
        # undeclared variables in the payload are ignored
        req.variables["undeclared_extra"] = {"x": [1, None]}
    # ---- faults: placed on positions enumerated by a fault-free model run
    fs = draws.stream("faults%d" % idx)
    req.faults = {}
    req.exp = None
    if req.variant == "normal":
        base = expected_response(spec, op, World(spec, req.wseed,
                                                 nonfinite=req.nonfinite),
                                 root_value=req.root)
        nf = fs.weighted((4, 3, 2, 1, 1, 1), "n_faults")
        kinds = ["err", "null", "errx", "errs", "errpp"]
        boom_on = bool(profile.get("boom", (0, 1))[0]) and fs.chance(
            *profile["boom"], "boom_on")
        if req.nonfinite:
            # (two sources of failure in one request: which one wins is
            # nobody's promise)
            boom_on = False
        if boom_on:
            # an unexpected exception, of one of the classes library code
            # tends to catch for its own control flow
            kinds.append("boom%d" % fs.below(len(BOOM_CLASSES), "boom_class"))
            nf = max(nf, 1)
        for _ in range(nf):
            if not base.positions:
                break
            path, what = base.positions[
                fs.below(len(base.positions), "fault_at")]
            if what == "item":
                req.faults[path] = "null"
            else:
                req.faults[path] = kinds[fs.below(len(kinds), "fault_kind")]
        if boom_on and base.positions and not any(
                v.startswith("boom") for v in req.faults.values()):
            cand = [p for p, what in base.positions if what == "field"]
            if cand:
                req.faults[cand[fs.below(len(cand), "boom_at")]] = kinds[-1]
        if profile.get("generr") and base.gen_sites and not boom_on and \
                not req.nonfinite and fs.chance(1, 2, "lazy_list_failure"):
            site = base.gen_sites[fs.below(len(base.gen_sites), "lazy_at")]
            # (whatever was placed below that field would be reported from
            # inside a nulled list: not modelled)
            req.faults = {p: k for p, k in req.faults.items()
                          if tuple(p[:len(site)]) != tuple(site)}
            req.faults[site] = "generr"
        if profile.get("shared_errors") and not boom_on \
                and not req.nonfinite and fs.chance(1, 8, "shared_error"):
            cand = [p for p, what in base.positions if what == "field"]
            if len(cand) >= 2:
                a = fs.below(len(cand), "shared_a")
                b = fs.below(len(cand) - 1, "shared_b")
                b = b if b < a else b + 1
                req.faults = {cand[a]: "errsh", cand[b]: "errsh"}
                req.variant = "shared-error"
        if profile.get("badenum") and not boom_on and not req.nonfinite \
                and req.variant == "normal" and base.enum_fields and \
                fs.chance(1, 10, "badenum"):
            # a resolver handing back a value outside its enum type
            req.faults = {base.enum_fields[fs.below(len(base.enum_fields),
                                                    "badenum_at")]: "badenum"}
            req.variant = "badenum"
        req.exp = expected_response(
            spec, op, World(spec, req.wseed, req.faults,
                            nonfinite=req.nonfinite), root_value=req.root)
    req.exp_snapshot = req.exp

    # ---- which configurations / stacks ---------------------------------
    which = profile.get("configs", "all")
    if which == "all":
        req.configs = list(CONFIGS)
        # L2 (real threads, line-granular pre-emption): always in the
        # thorough tier, for a quarter of the requests in the quick tier
        if tier == "thorough" or rs.chance(*profile.get("l2", (1, 4)), "l2"):
            req.configs.append("threads")
    elif which == "two":
        a = rs.below(len(CONFIGS), "cfg_a")
        b = rs.below(len(CONFIGS), "cfg_b")
        req.configs = [CONFIGS[a]] + ([CONFIGS[b]] if b != a else [])
    else:
        req.configs = [CONFIGS[rs.below(len(CONFIGS), "cfg")]]
    # The L2 run of a request gets extra resolver errors: the state shared
    # between worker threads (error list, gather slots) is only contended when
    # several fields fail or complete in different workers at the same time.
    req.l2 = None
    if "threads" in req.configs and req.variant == "normal" and \
            req.exp is not None and not req.exp.crash:
        import copy
        l2 = copy.copy(req)
        l2.faults = dict(req.faults)
        cand = [p for p, what in base.positions if what == "field"]
        for _ in range(2):
            if cand:
                l2.faults.setdefault(
                    cand[fs.below(len(cand), "l2_fault_at")],
                    ("err", "errs", "null")[fs.below(3, "l2_fault_kind")])
        l2.exp = expected_response(
            spec, op, World(spec, req.wseed, l2.faults,
                            nonfinite=req.nonfinite), root_value=req.root)
        l2.exp_snapshot = l2.exp
        req.l2 = l2
    # validators=[default, one that accepts everything]: same outcome, and
    # the validation stage is still ONE stage
    req.validators_ok = rs.chance(1, 6, "validators_ok")
    # the request is issued from inside an ``except`` block of the caller
    # (cache miss, fallback path): the caller's exception is none of the
    # library's business
    req.in_except = rs.chance(1, 5, "in_except")
    req.ninstr = 1
    req.mws = []
    req.tracer = False
    req.skew = None
    if profile.get("stacks") or rs.chance(1, 4, "stacks"):
        req.ninstr = 1 + rs.weighted((3, 2, 1), "ninstr")
        nmw = rs.weighted((3, 3, 2, 1), "nmw")
        req.mws = [bool(rs.below(2, "mw_async")) for _ in range(nmw)]
        req.tracer = rs.chance(1, 2, "tracer")
        if req.tracer and rs.chance(1, 2, "skew"):
            req.skew = [(-5.0, 0.0, 3600.0, -0.001)[rs.below(4, "skew_v")]
                        for _ in range(1 + rs.below(4, "skew_n"))]
    if req.l2 is not None:
        for a in ("ninstr", "mws", "tracer", "skew", "validators_ok",
                  "in_except"):
            setattr(req.l2, a, getattr(req, a))
    return req


def _block_string_backslashes(text):
    """Positions right after each backslash that sits inside a block string."""
    out = []
    i = 0
    while i < len(text):
        if text.startswith('"""', i):
            j = i + 3
            while j < len(text) and not text.startswith('"""', j):
                if text[j] == "\\":
                    out.append(j + 1)
                    if text.startswith('"""', j + 1):
                        j += 3
                j += 1
            i = j + 3
            continue
        if text[i] == '"':
            # skip an ordinary string
            j = i + 1
            while j < len(text) and text[j] not in '"\n':
                j += 2 if text[j] == "\\" else 1
            i = j + 1
            continue
        i += 1
    return out


def _inject_astral(text, rs):
    """Put an astral character into one ordinary string literal of the text
    (corrupted-request variants only: nothing is expected of the data)."""
    opens = []
    in_str = False
    i = 0
    while i < len(text):
        if text.startswith('"""', i):
            j = text.find('"""', i + 3)
            i = len(text) if j < 0 else j + 3
            continue
        ch = text[i]
        if in_str and ch == "\\":
            i += 2
            continue
        if ch == '"':
            if not in_str:
                opens.append(i + 1)
            in_str = not in_str
        elif ch == "\n":
            in_str = False
        i += 1
    if not opens or not rs.chance(1, 2, "inject_astral"):
        return text
    at = opens[rs.below(len(opens), "inject_at")]
    return text[:at] + "\U0001F388" + text[at:]


def _u_escape(text):
    out = []
    in_str = False
    i = 0
    while i < len(text):
        ch = text[i]
        if text.startswith('"""', i):
            # block strings do not process escapes: copied verbatim
            j = text.find('"""', i + 3)
            while j > 0 and text[j - 1] == "\\":
                j = text.find('"""', j + 3)
            j = len(text) if j < 0 else j + 3
            out.append(text[i:j])
            i = j
            continue
        if ch == '"':
            in_str = not in_str
        elif in_str and ch == "\\":
            out.append(text[i:i + 2])
            i += 2
            continue
        elif in_str and ord(ch) > 127:
            cp = ord(ch)
            if cp > 0xFFFF:
                cp -= 0x10000
                out.append("\\u%04X\\u%04X" % (0xD800 + (cp >> 10),
                                               0xDC00 + (cp & 0x3FF)))
            else:
                out.append("\\u%04X" % cp)
            i += 1
            continue
        out.append(ch)
        i += 1
    return "".join(out)


def _bad_field():
    f = FieldSel("zzz")
    return f


def _corrupt_variables(req, rs):
    cands = []
    nested = []
    for name, t, dflt in req.op.vardefs:
        if name not in req.variables:
            continue
        base = t.strip("[]!")
        if t.endswith("!"):
            cands.append((name, None))
        elif base in ("Int", "Stamp", "Color", "Inp"):
            cands.append((name, {"bad": 1}))
            # payload text ends up quoted in the error message
            cands.append((name, ("100%", "%s and %d", "%(name)s", "{0} {}",
                                 "\\u0041 \n")[rs.below(5, "fmt_payload")]))
        # numbers a JSON payload can carry that no GraphQL number type holds:
        # 1e999 (parsed as inf), NaN, integers of hundreds of digits
        if base == "Int" and not t.startswith("["):
            cands.append((name, (float("inf"), float("nan"), 10 ** 400,
                                 float("-inf"))[rs.below(4, "num_edge")]))
        if base == "Float":
            edge = (10 ** 400, -(10 ** 400), float("inf"), float("nan"))[
                rs.below(4, "num_edge")]
            cands.append((name, [edge] if t.startswith("[") else edge))
        # nested containers carrying several errors of their own
        if t.startswith("[[") :
            nested.append((name, [[1, 2], [None, "x%s", {"y%": 1}]]))
        elif t.startswith("[") and base == "Inp":
            nested.append((name, [{"a": None, "c": ["NOPE", 5]},
                                  {"a": "x%", "zzz": 1, "b": "-20%s"}]))
        elif t.startswith("["):
            cands.append((name, [None, {"bad": 1}, [], "x%d"]))
        elif base == "Inp":
            nested.append((name, {"a": "x", "b": "100%s",
                                  "c": ["NOPE", 5, None]}))
    if nested and (not cands or rs.chance(1, 2, "corrupt_nested")):
        cands = nested
    if not cands:
        return False
    name, val = cands[rs.below(len(cands), "corrupt_var")]
    req.variables[name] = val
    return True


def _classify(result):
    """Outcome class from py-gql's own result (used for corrupted requests
    whose class the generator cannot know)."""
    errs = result.errors
    if errs and all(isinstance(e, GraphQLSyntaxError) for e in errs):
        return "syntax-error", "syntax"
    if errs and all(isinstance(e, ValidationError) for e in errs):
        return "validation-error", "validation"
    if errs and all(isinstance(e, VariableCoercionError) for e in errs):
        return "variables-error", "variables"
    if errs and all(isinstance(e, ExecutionError) for e in errs):
        return "operation-error", "operation"
    return "executed", "execution"


_SIZED = {}


def _sized(cls):
    """Subclass of a recorder class that also behaves as a sized collection
    (``len()`` = number of hooks seen so far)."""
    if cls not in _SIZED:
        class Sized(cls):
            seen = 0

            def _log(self, kind, path=None):
                self.seen += 1
                super()._log(kind, path)

            def __len__(self):
                return self.seen

        Sized.__name__ = "Sized" + cls.__name__
        _SIZED[cls] = Sized
    return _SIZED[cls]


def _reject_policy(schema, document, variables=None):
    """A custom validator (the ``validators=`` argument of the entry points)
    that refuses every document."""
    return [ValidationError("refused by policy", [document.definitions[0]])]


def _accept_policy(schema, document, variables=None):
    return []


_EXPECTED_CLASS = {
    "policy": ("validation-error", "validation"),
    "syntax": ("syntax-error", "syntax"),
    "validation": ("validation-error", "validation"),
    "variables": ("variables-error", "variables"),
    "opname": ("operation-error", "operation"),
}


class CaseResult:
    __slots__ = ("violations", "stats", "signatures", "samples", "discard",
                 "digest", "nontrivial")

    def __init__(self):
        self.violations = []
        self.stats = {}
        self.signatures = []
        self.samples = None
        self.discard = None
        self.digest = None
        self.nontrivial = 0

    def count(self, k, n=1):
        self.stats[k] = self.stats.get(k, 0) + n


def run_case(draws, prop, tier="quick"):
    """Generate and execute one case.  Returns a CaseResult.  Deterministic in
    ``draws``."""
    import hashlib

    profile = PROFILES[prop]
    res = CaseResult()
    st = draws.stream("workload")
    if prop == "C16" and st.chance(1, 6, "subscription_case"):
        # hooks over the events of subscriptions (one executor reused for
        # every event) are checked by the subscription engine
        from . import subsim
        return subsim.run_case(draws, prop, tier)
    want_mut = st.chance(*profile["mutation"], "mut")
    spec = gen_schema(st, want_mutation=want_mut, allow_root_default=True)
    try:
        bundle = Bundle(spec)
    except Exception as err:  # noqa: B902
        raise HarnessError("generated schema rejected: %r\n%s"
                           % (err, spec.sdl()))
    lo, hi = profile["nreq"]
    nreq = lo + st.below(hi - lo + 1, "nreq")
    digest = hashlib.sha256()
    sample = {"sdl": bundle.sdl, "requests": []}
    prev = None
    done_requests = []
    for idx in range(nreq):
        try:
            req = _gen_request(draws, spec, bundle, idx, profile, want_mut,
                               tier, prev)
            prev = req
        except Discard as d:
            res.count("discard:" + d.why)
            if idx == 0:
                res.discard = d.why
                return res
            continue
        done_requests.append(req)
        if profile.get("activities") and idx > 0:
            _activity(draws.stream("act%d" % idx), bundle, res)
        sreq = {
            "text": req.text, "variables": req.variables,
            "operation_name": req.operation_name, "variant": req.variant,
            "repeat_of_request": req.repeat_of,
            "same_document_object": req.document is not None,
            "faults": {"/".join(map(str, k)): v
                       for k, v in req.faults.items()},
            "runs": [],
        }
        sample["requests"].append(sreq)
        for config in req.configs:
            mode = MODE_OF[config]
            reps = profile["reps"] if mode != "blocking" else 1
            if config == "threads" and tier != "thorough":
                reps = profile.get("l2_reps", 1)
            base_reps = reps
            if tier == "thorough" and mode != "blocking" \
                    and config != "threads" and profile["reps"] > 1:
                # order sweep: any in-flight item may complete next
                reps += 3
            for rep in range(reps):
                sname = "sched:%d:%s:%d" % (idx, config, rep)
                sched = draws.stream(sname)
                if mode == "blocking":
                    policy = {"kind": "fifo"}
                elif rep == 0:
                    policy = {"kind": "random"}
                elif rep >= base_reps:
                    policy = {"kind": "pick"}
                else:
                    policy = {"kind": POLICIES[
                        sched.below(len(POLICIES), "policy")]}
                rq = req.l2 if (config == "threads"
                                and req.l2 is not None) else req
                out, hooks = _execute(config, bundle, spec, rq, sched,
                                      policy)
                _evaluate(res, prop, config, rq, out, hooks)
                ev = out.kernel.log.events
                digest.update(sname.encode())
                digest.update(out.kernel.log.digest().encode())
                order = tuple(e[4] for e in ev if e[3] in ("re", "rx", "rb"))
                sig = hashlib.sha256(
                    repr((config, order)).encode()).hexdigest()[:16]
                ks = out.kernel.stats
                nontrivial = (ks["max_pending"] >= 2 and bool(req.faults))
                res.signatures.append((sig, nontrivial))
                res.count("runs")
                res.count("runs:" + config)
                res.count("policy:" + policy["kind"])
                res.count("status:" + str(out.status))
                res.count("sim_seconds_x1000", int(out.kernel.now * 1000))
                res.count("kernel_items", ks["completed"])
                res.count("stalls", ks["stalls"])
                res.count("ties_reordered", ks["ties_reordered"])
                res.count("inline_completions", ks["inline_completions"])
                if ks["max_pending"] >= 2:
                    res.count("runs_with_concurrency")
                if out.blocking_waits:
                    res.count("blocking_result_waits", out.blocking_waits)
                if out.l2 is not None:
                    for k2, v2 in out.l2.stats.items():
                        res.count("l2:" + k2, v2)
                if out.loop_info:
                    res.count("stuck_tasks", out.loop_info["stuck_tasks"])
                    if out.status == "ok":
                        res.count("probe:tasks_left_pending_after_a_result",
                                  out.loop_info["stuck_tasks"])
                    res.count("loop_unhandled", out.loop_info["unhandled"])
                    res.count("executor_jobs",
                              out.loop_info["executor_jobs"])
                    res.count("probe:overlapping_executor_jobs",
                              out.loop_info.get("overlapping_jobs", 0))
                for k, v in out.ctx.stats.items():
                    res.count("fired:" + k, v)
                sreq["runs"].append({
                    "config": config, "policy": policy["kind"],
                    "status": out.status,
                    "resolver_order": ["/".join(map(str, p)) for p in order],
                })
        for v in _check_agreement(req, idx):
            if prop in v.props:
                res.violations.append(v)
        if req.exp is not None:
            e = req.exp
            res.count("field_instances", len(e.resolved))
            res.count("expected_errors", len(e.errors))
            res.count("probe:merged_field_groups", e.merged_groups)
            res.count("probe:fragment_applied", e.frag_applied)
            res.count("probe:fragment_rejected", e.frag_rejected)
            res.count("probe:divergent_merge_groups",
                      1 if e.divergent_groups else 0)
            res.count("fired:F1c_argument_coercion_error", e.arg_errors)
            if e.crash:
                res.count("probe:crash_expected")
            for k, v in req.faults.items():
                res.count("placed:" + v[:4])
        res.count("variant:" + req.variant)
        if req.repeat_of is not None:
            res.count("probe:same_document_other_variables")
            if req.document is not None:
                res.count("probe:same_document_object_reused")
    # ---- overlapped: the same requests again, concurrently on one loop/pool
    normal = [r for r in done_requests
              if r.variant == "normal" and r.exp is not None
              and not r.exp.crash and not r.nonfinite]
    if profile.get("overlap") and len(normal) >= 2:
        ost = draws.stream("overlap")
        if ost.chance(1, 2, "overlap_on"):
            pair = normal[-2:]
            config = ("asyncio-inline", "asyncio-thread", "pool")[
                ost.below(3, "overlap_cfg")]
            _overlap(res, prop, config, bundle, spec, pair, ost, digest,
                     sample)
    res.samples = sample
    res.digest = digest.hexdigest()
    return res


def _overlap(res, prop, config, bundle, spec, pair, ost, digest, sample):
    import hashlib
    requests, worlds = [], []
    for r in pair:
        # a repeated document shares its op object with the request it
        # repeats: recompute this request's expectation from its own state
        requests.append({
            "text": r.text, "variables": r.variables,
            "operation_name": r.operation_name, "root": r.root,
            "kind": r.op.kind,
        })
        worlds.append(World(spec, r.wseed, r.faults))
    shared_instr = ost.chance(1, 3, "shared_instrumentation")
    kernel, outs = run_overlapped(config, bundle, requests, worlds, ost,
                                  policy={"kind": "random"},
                                  shared_instrumentation=shared_instr)
    V = res.violations
    events = kernel.log.events
    if shared_instr and all(o.status == "ok" for o in outs):
        # one instrumentation object for all of them: every stage was
        # entered and left once per request
        res.count("probe:shared_instrumentation_object")
        tot = {}
        for e in events:
            if e[5] == ("SH", None):
                tot[e[3]] = tot.get(e[3], 0) + 1
        for stage in ("query", "parsing", "validation", "execution"):
            a, b = tot.get(stage + "_start", 0), tot.get(stage + "_end", 0)
            if a != len(pair) or b != len(pair):
                V.append(Violation(
                    ("C16",), "stage_nesting",
                    ("shared-instrumentation", stage, "count"),
                    "%d overlapped requests share one instrumentation "
                    "object: %s_start fired %d times, %s_end %d times" % (
                        len(pair), stage, a, stage, b)))
                break
    for rid, (r, out) in enumerate(zip(pair, outs)):
        if out.status == "stepcap":
            # a bound on the size of one simulated run, not a verdict
            res.count("discard:stepcap")
            return
        if out.status == "hang":
            V.append(Violation(("C08",), "hang", (config, "overlapped"),
                               str(out.exc) or "quiescent, result not done"))
            continue
        if out.status == "raised":
            V.append(Violation(
                ("C04", "C08", "C10"), "unexpected_exception",
                (config, type(out.exc).__name__),
                "overlapped request failed with %r" % (out.exc,)))
            continue
        exp = r.exp_snapshot
        V.extend(oracles.check_response(("C04", "C08"), config, exp,
                                        out.result, locations=not r.noloc,
                                        line_shift=r.line_shift))
        if r.op.kind == "mutation":
            V.extend(oracles.check_serial(config, exp, events, req_id=rid))
        V.extend(oracles.check_wellformed("execution", config, out.result,
                                          r.text, exp))
        V.extend(oracles.check_hooks(config, "executed", exp, events, ["R0"],
                                     [], req_id=rid,
                                     skip_stages=shared_instr))
    digest.update(b"overlap")
    digest.update(kernel.log.digest().encode())
    order = tuple((e[5], e[4]) for e in events if e[3] in ("re", "rx"))
    sig = hashlib.sha256(repr((config, "ov", order)).encode()).hexdigest()[:16]
    res.signatures.append((sig, kernel.stats["max_pending"] >= 2
                           and any(r.faults for r in pair)))
    res.count("runs")
    res.count("runs:overlapped-" + config)
    res.count("probe:overlapped_requests", len(pair))
    res.count("kernel_items", kernel.stats["completed"])
    res.count("sim_seconds_x1000", int(kernel.now * 1000))
    sample["overlapped"] = {
        "config": config, "requests": [r.index for r in pair],
        "interleaving": ["r%s:%s" % (a, "/".join(map(str, b)))
                         for a, b in order][:40],
    }


def _activity(st, bundle, res):
    """Earlier activity of another kind on the long-lived schema object."""
    what = st.below(4, "activity")
    if what == 0:
        return
    res.count("activity:%d" % what)
    if what == 1:
        from py_gql import graphql_blocking
        bundle.set_mode("blocking")
        r = graphql_blocking(bundle.schema, introspection_query())
        if r.errors:
            raise HarnessError("introspection failed: %r" % (r.errors,))
    elif what == 2:
        bundle.schema.to_string()
    else:
        bundle.schema.validate()


_APP_MIDDLEWARES = []  # one list object per process lifetime (= per case)


def _rendezvous_pair(spec, req):
    """Two sibling coroutine resolvers (same parent object, same selection
    set) made to wait for each other to have STARTED -- a two-key batch
    dispatched when full.  The runtime gathers the pending values of one
    selection set together, so both are in flight and the request completes;
    a runtime that finishes one pending sibling before starting the next
    leaves it pending for ever (``hang``).  One world in three; never with
    crashes or lazily failing lists (abandoned rows are never started)."""
    exp = req.exp
    if exp is None or req.variant != "normal" or exp.crash or \
            (req.wseed >> 23) % 3 != 0 or req.nonfinite:
        return None
    if any(k == "generr" or k.startswith("boom") or k == "badenum"
           for k in req.faults.values()):
        return None
    groups = {}
    for pth, (t, f) in exp.invoked_defs.items():
        if spec.behaviours.get((t, f)) != "async":
            continue
        if req.op.kind == "mutation" and len(pth) == 1:
            continue  # serial by definition
        groups.setdefault(pth[:-1], []).append(pth)
    cands = sorted((sorted(g, key=repr) for g in groups.values()
                    if len(g) >= 2), key=repr)
    if not cands:
        return None
    g = cands[(req.wseed >> 25) % len(cands)]
    i = (req.wseed >> 29) % (len(g) - 1)
    return (g[i], g[i + 1])


def _execute(config, bundle, spec, req, sched, policy):
    mode = MODE_OF[config]
    tags = ["R0"] + ["%s%d" % ("RSE"[(req.wseed >> (2 * i)) % 3], i)
                     for i in range(1, req.ninstr)]
    mw_tags = []
    mws = []
    for i, is_async in enumerate(req.mws):
        is_async = is_async and mode == "asyncio"
        mw_tags.append("M%d" % i)
        if not is_async and (req.wseed >> (5 + i)) % 3 == 0:
            # a callable object comparing by value, one instance per run
            mws.append(MiddlewareObject("M%d" % i))
        else:
            mws.append(make_middleware("M%d" % i, is_async))
    tracer_box = []

    def instr_factory(kref):
        # R0 records everything; further stack members may implement only
        # the start hooks ("S" tags) or only the end hooks ("E" tags)
        recs = []
        for t in tags:
            cls = {"R": Recorder, "S": StartsOnlyRecorder,
                   "E": EndsOnlyRecorder}[t[0]]
            recs.append(cls(kref, t))
        if len(recs) >= 2 and (req.wseed >> 11) % 3 == 0:
            # a stack member that is a *collection* of what it has seen --
            # empty, hence falsy, when the stack is assembled (never the
            # top-level object: the entry points themselves substitute a
            # default for a falsy ``instrumentation=`` argument)
            k = 1 + (req.wseed >> 13) % (len(recs) - 1)
            recs[k] = _sized(type(recs[k]))(kref, tags[k])
        if req.tracer:
            _tracers.datetime = _FakeDatetimeModule(kref, req.skew)
            tr = _tracers.ApolloTracer()
            tracer_box.append(tr)
            recs.append(tr)
        if len(recs) == 1:
            return recs[0]
        shape = (req.wseed >> 7) % 3 if len(recs) >= 3 else 0
        if shape == 1:
            # stacks of stacks: dispatch order is that of the flattened list
            return MultiInstrumentation(
                MultiInstrumentation(*recs[:2]), *recs[2:])
        if shape == 2:
            return MultiInstrumentation(
                recs[0], MultiInstrumentation(*recs[1:-1]), recs[-1]) \
                if len(recs) >= 4 else MultiInstrumentation(
                    MultiInstrumentation(recs[0]),
                    MultiInstrumentation(*recs[1:]))
        if (req.wseed >> 17) % 3 == 0:
            # an application-wide stack to which the last member is added
            # after construction, through the public attribute
            stack = MultiInstrumentation(*recs[:-1])
            stack.instrumentations += (recs[-1],)
            return stack
        return MultiInstrumentation(*recs)

    world = World(spec, req.wseed, req.faults, nonfinite=req.nonfinite)
    request = {
        "text": (req.document if req.document is not None
                 else parse(req.text, no_location=req.noloc))
        if req.preparsed else req.text,
        "variables": req.variables,
        "operation_name": req.operation_name,
        "root": req.root,
        "kind": req.op.kind,
    }
    request["in_except"] = req.in_except
    rv = _rendezvous_pair(spec, req) if mode == "asyncio" else None
    if rv:
        request["rendezvous"] = rv
    if req.variant == "policy":
        from py_gql.validation import default_validator
        request["validators"] = [default_validator, _reject_policy]
    elif req.validators_ok:
        from py_gql.validation import default_validator
        request["validators"] = [_accept_policy, default_validator,
                                 _accept_policy]
    if (req.wseed >> 19) % 2 == 0:
        # the application keeps ONE list of middlewares and edits it in place
        # between requests (``app.middlewares.append(...)``)
        def mw_factory(m):
            _APP_MIDDLEWARES[:] = mws
            return _APP_MIDDLEWARES
    else:
        mw_factory = (lambda m: list(mws)) if mws else None
    try:
        out = run_config(
            config, bundle, request, world, sched, policy=policy,
            instrumentation_factory=instr_factory,
            middlewares_factory=mw_factory,
        )
    finally:
        _tracers.datetime = _dt
    # what each configured middleware OBJECT has seen itself must be what
    # was logged under its tag in this run
    out.mw_bypassed = None
    for m in mws:
        if isinstance(m, MiddlewareObject):
            logged = sum(1 for e in out.kernel.log.events
                         if e[3] == "mw_enter" and e[5][0] == m.tag)
            if logged != m.seen:
                out.mw_bypassed = (m.tag, m.seen, logged)
    return out, (tags, mw_tags, tracer_box[0] if tracer_box else None)


def _evaluate(res, prop, config, req, out, hooks):
    tags, mw_tags, tracer = hooks
    V = res.violations
    events = out.kernel.log.events
    if getattr(out, "mw_bypassed", None):
        tag, seen, logged = out.mw_bypassed
        V.append(Violation(
            ("C16",), "middleware", (config, "configured-instance-bypassed"),
            "the middleware object configured for this request (%s) was "
            "called %d times; %d calls were made under its name, by some "
            "other instance" % (tag, seen, logged)))
    if out.status == "stepcap":
        # a bound on the size of one simulated run, not a verdict (counted;
        # the runner refuses a check whose discards exceed its cap)
        res.count("discard:stepcap")
        return
    exp = req.exp
    if out.status == "hang":
        why = str(out.exc)
        V.append(Violation(
            ("C08",), "hang",
            (config, "worker-deadlock") if "blocked" in why else (config,),
            why or "quiescent but result not done"))
        if req.variant == "normal" and req.op.kind == "mutation" and \
                exp is not None and not exp.crash:
            # a mutation that never completes: some root field was prevented
            # from running / finishing (C09's "does not prevent the later
            # ones from running")
            V.append(Violation(
                ("C09",), "serial_continue", (config, "never-finished"),
                "mutation left pending at quiescence: %s" % (
                    why or "result not done")))
        return
    if req.variant == "shared-error":
        # One ResolverError instance raised by two fields of the request: the
        # data must be as specified; each failing position needs its own
        # error entry (C10).  Kept apart from the ordinary error oracles so
        # that a finding here has a key of its own.
        if out.status != "ok":
            V.append(Violation(
                ("C10",), "entrypoint_raised",
                ("shared-resolver-error-instance", type(out.exc).__name__),
                repr(out.exc)))
            return
        d = oracles.first_diff(exp.data, out.result.data)
        if d:
            V.append(Violation(("C04", "C08"), "data_mismatch",
                               (config, d[0]), "shared error: %r" % (d,)))
        got = sorted(
            (tuple(e.get("path") or ()) for e in
             (out.result.response().get("errors") or [])), key=repr)
        want = sorted((e["path"] for e in exp.errors), key=repr)
        if got != want:
            V.append(Violation(
                ("C10",), "null_error_bijection",
                ("shared-resolver-error-instance", "paths"),
                "the same ResolverError instance raised at %r: errors carry "
                "paths %r" % (want, got)))
        # every field is resolved all the same: hooks and middlewares as for
        # any other resolver error
        V.extend(oracles.check_hooks(
            config, "preparsed" if req.preparsed else "executed", exp,
            events, tags, mw_tags))
        return
    if req.variant == "badenum":
        # No answer is specified for a developer error of this kind (py-gql
        # raises RuntimeError); whatever happens, a response must be well
        # formed and no hook may fire twice.
        if out.status == "ok":
            res.count("probe:bad_enum_value_answered")
            V.extend(oracles.check_wellformed("execution", config,
                                              out.result, req.text, None))
        else:
            res.count("probe:bad_enum_value_refused")
        V.extend(oracles.check_hooks(
            config, "crashed", exp, events, tags, mw_tags, crashed=True))
        return
    if req.variant == "normal":
        if exp.crash:
            key = None
            import concurrent.futures as _cf
            boom_classes = {
                BOOM_CLASSES[int(v[4:] or 0) % len(BOOM_CLASSES)].__name__
                for v in req.faults.values() if v.startswith("boom")}
            if out.status == "raised" and (
                    isinstance(out.exc, Boom)
                    # a cancelled child cancels the futures chained to it:
                    # the overall result fails with a CancelledError of its
                    # own, which is a failure all the same
                    or ("BoomCancelled" in boom_classes
                        and isinstance(out.exc, _cf.CancelledError))):
                res.count("probe:crash_surfaced")
            elif out.status == "ok":
                classes = sorted({
                    BOOM_CLASSES[int(v[4:] or 0) % len(BOOM_CLASSES)].__name__
                    for v in req.faults.values() if v.startswith("boom")})
                key = (config, "success")
                if classes == ["BoomExecution"]:
                    # own key: the exception class that the entry point
                    # catches around execute() (a listed known finding on the
                    # blocking runtime must not mask any other lost crash)
                    # An ExecutionError can only come back as a RESPONSE
                    # through the entry point's own 'except ExecutionError'
                    # around execute(): the resolver raised while that call
                    # was on the stack (any runtime -- resolvers that are not
                    # handed to a thread / task run right there).
                    key = ("ExecutionError-from-resolver",
                           "raised-inside-execute")
                V.append(Violation(("C08",), "crash_lost", key,
                                   "injected %s but got a result: %s" % (
                                       "/".join(classes),
                                       repr(out.result.data)[:200])))
            else:
                V.append(Violation(("C08",), "crash_lost",
                                   (config, "other-exception"),
                                   "got %r" % (out.exc,)))
            if req.op.kind == "mutation":
                # whatever the outcome: no root resolver runs twice (its side
                # effect would happen twice)
                seen_rs = {}
                for e in events:
                    if e[3] == "rs" and e[4] and len(e[4]) == 1:
                        seen_rs[e[4]] = seen_rs.get(e[4], 0) + 1
                twice = sorted(p for p, n in seen_rs.items() if n > 1)
                if twice:
                    V.append(Violation(
                        ("C09",), "serial_order",
                        (config, "root-resolver-invoked-twice"),
                        "root resolver(s) %r ran more than once" % (twice,)))
            hv = oracles.check_hooks(
                config, "crashed", exp, events, tags, mw_tags, crashed=True)
            if out.status == "ok" and key and \
                    key[0] == "ExecutionError-from-resolver":
                # the same listed defect seen through the hooks: the entry
                # point answered from its 'except ExecutionError', so
                # on_query_end fired and on_execution_end did not
                hv = [Violation(v.props, v.oracle,
                                ("ExecutionError-from-resolver",)
                                + tuple(v.key[1:]), v.detail)
                      if v.oracle == "stage_nesting" else v for v in hv]
            V.extend(hv)
            return
        if req.nonfinite and _has_nonfinite(exp.data):
            # A Float position holds NaN/Infinity.  py-gql treats values a
            # scalar cannot represent as a developer error (RuntimeError, no
            # response exists); what must never happen is a *response* that
            # is not strict JSON.
            if getattr(req, "unmodelled", None) is None:
                req.unmodelled = {}
            cls = ("raised:" + type(out.exc).__name__
                   if out.status == "raised" else str(out.status))
            prev_cls = req.unmodelled.setdefault(config, cls)
            if prev_cls != cls:
                req.unmodelled[config + "'"] = cls
            if out.status == "raised" and isinstance(out.exc, RuntimeError):
                res.count("probe:nonfinite_float_refused")
            elif out.status == "ok":
                V.extend(oracles.check_wellformed(
                    "execution", config, out.result, req.text, None))
            else:
                V.append(Violation(
                    ("C10",), "entrypoint_raised",
                    ("execution", type(out.exc).__name__),
                    "non-finite float: %r" % (out.exc,)))
            return
        if out.status == "raised":
            V.append(Violation(
                ("C04", "C08", "C10"), "unexpected_exception",
                (config, type(out.exc).__name__),
                "entry point failed with %r" % (out.exc,)))
            from py_gql.exc import ResolverError as _RE
            if req.op.kind == "mutation" and (any(
                    len(p) == 1 and k in ("err", "errx", "errs", "errpp",
                                          "generr")
                    for p, k in req.faults.items())
                    or isinstance(out.exc, _RE)):
                V.append(Violation(
                    ("C09",), "serial_continue", (config, "aborted"),
                    "a root field failing with a resolver error aborted the "
                    "whole mutation: %r" % (out.exc,)))
            return
        V.extend(oracles.check_response(("C04", "C08"), config, exp,
                                        out.result, locations=not req.noloc,
                                        line_shift=req.line_shift))
        if req.noloc:
            res.count("probe:document_without_locations")
        if req.op.kind == "mutation":
            V.extend(oracles.check_serial(config, exp, events))
            got_keys = list(out.result.data.keys()) if isinstance(
                out.result.data, dict) else None
            if got_keys is not None and got_keys != exp.root_keys and \
                    sorted(got_keys) == sorted(exp.root_keys):
                V.append(Violation(
                    ("C09",), "serial_order", (config, "response-key-order"),
                    "the response lists the root fields as %r, the document "
                    "as %r" % (got_keys, exp.root_keys)))
        V.extend(oracles.check_wellformed("execution", config, out.result,
                                          req.text, exp))
        V.extend(oracles.check_hooks(
            config, "preparsed" if req.preparsed else "executed", exp,
            events, tags, mw_tags))
        if req.preparsed:
            pass
        if tracer is not None:
            V.extend(_check_tracer(tracer, exp))
        return
    # ---- non-execution / corrupted requests -------------------------------
    if out.status == "raised":
        stage = _EXPECTED_CLASS.get(req.variant, ("?", req.variant))[1]
        V.append(Violation(
            ("C10",), "entrypoint_raised", (stage, type(out.exc).__name__),
            "entry point raised %r for request %r" % (out.exc,
                                                      req.text[:120])))
        return
    got_class, got_stage = _classify(out.result)
    if req.variant in _EXPECTED_CLASS:
        want_class, want_stage = _EXPECTED_CLASS[req.variant]
        if got_class != want_class and req.variant == "policy":
            V.append(Violation(
                ("C10", "C04"), "data_presence",
                ("policy-validator", got_class),
                "request %d repeats the document of request %r under "
                "validators=[default_validator, reject]: outcome %s, data %s"
                % (req.index, req.repeat_of, got_class,
                   "present" if out.result.data is not None else "absent")))
            return
        if got_class != want_class:
            # the harness constructed a request that fails at a known stage
            # (an unknown field or fragment, a payload of the wrong shape, an
            # operation name the document lacks, broken syntax): answering
            # from another stage -- or executing it -- is wrong
            V.append(Violation(
                ("C10",), "outcome_class", (req.variant, got_class),
                "request built to fail at stage %r was answered as %s: %s; "
                "text %r variables %r operation_name %r" % (
                    want_stage, got_class,
                    repr(getattr(out.result, "errors", None))[:200],
                    req.text[:300],
                    req.variables, req.operation_name)))
            return
    res.count("outcome:" + got_class)
    V.extend(oracles.check_wellformed(got_stage, config, out.result,
                                      req.text, None))
    if tracer is not None:
        # whatever the outcome, the tracer's payload must be serialisable
        try:
            json.dumps(tracer.payload(), allow_nan=False)
        except Exception as err:  # noqa: B902
            V.append(Violation(("C16",), "tracer_payload",
                               ("not-serialisable", got_class), repr(err)))
    if got_class == "executed":
        # a corrupted request that still executes: only generic hook checks
        V.extend(oracles.check_hooks(config, "executed-unknown", None, events,
                                     tags, mw_tags))
    else:
        V.extend(oracles.check_hooks(config, got_class, None, events, tags,
                                     mw_tags, preparsed=req.preparsed))


def _check_agreement(req, idx):
    """Requests whose answer the model does not predict (a leaf value its
    scalar cannot represent): whatever the library does with them, it has to do
    the same thing under every configuration (C08)."""
    seen = getattr(req, "unmodelled", None)
    if not seen or len(set(seen.values())) < 2:
        return []
    classes = sorted(set(seen.values()))
    return [Violation(
        ("C08",), "outcome_divergence", ("unrepresentable-leaf",) + tuple(
            sorted({c.split(":")[0] for c in classes})),
        "request %d holds a leaf value its scalar cannot represent; the "
        "configurations disagree about the outcome: %r" % (idx, seen))]


def _has_nonfinite(d):
    if isinstance(d, int) and not isinstance(d, bool):
        return abs(d) > 2 ** 31
    if isinstance(d, dict):
        return any(_has_nonfinite(v) for v in d.values())
    if isinstance(d, list):
        return any(_has_nonfinite(v) for v in d)
    return isinstance(d, float) and (d != d or d in (float("inf"),
                                                     float("-inf")))


def _check_tracer(tracer, exp):
    out = []
    try:
        payload = tracer.payload()
        json.dumps(payload, allow_nan=False)
    except Exception as err:  # noqa: B902
        out.append(Violation(("C16",), "tracer_payload", ("not-serialisable",),
                             repr(err)))
        return out
    ex = payload.get("execution") or {}
    entries = ex.get("resolvers", [])
    paths = [tuple(e["path"]) for e in entries]
    lazy = getattr(exp, "lazy_failed", ())
    paths = [q for q in paths if not oracles.under_any(q, lazy)]
    want = sorted(exp.resolved, key=repr)
    if sorted(paths, key=repr) != want:
        out.append(Violation(("C16",), "tracer_payload", ("entry-count",),
                             "entries %r, resolved %r" % (paths, want)))
    elif any(e.get("duration") is None for e in entries
             if not oracles.under_any(tuple(e["path"]), lazy)):
        out.append(Violation(("C16",), "tracer_payload", ("null-duration",),
                             "some resolver entry has no duration"))
    return out


REAL_VS_STUB = {
    "real": [
        "py_gql parser, validator, coercion, Executor, BlockingExecutor, "
        "execute, process_graphql_query, runtime combinators (chain, "
        "gather_futures, unwrap_future, map_value, gather_values, "
        "unwrap_value), instrumentation, tracers -- imported from the "
        "working tree",
        "asyncio.Task / Future / gather / coroutines (stdlib)",
        "concurrent.futures.Future state machine and callbacks (stdlib)",
    ],
    "stub": [
        "asyncio event-loop core: SimLoop (virtual clock, no selector, "
        "run_in_executor jobs become kernel items)",
        "ThreadPoolExecutor behind ThreadPoolRuntime._inner: SimExecutor "
        "(single-threaded completion-order simulation, bounded pool model) "
        "and ThreadSim (real threads, one runnable at a time, line-granular "
        "pre-emption) for a share of the requests (all of them in the "
        "thorough tier)",
        "wall clock in py_gql.tracers (virtual clock + skew table)",
        "resolvers, type resolvers, middlewares, instrumentations "
        "(synthetic, generated per case)",
    ],
}

_RULES = {
    "C08": "one case = generated schema + operation + world + fault "
           "placement, executed under 5 executor/runtime configurations x "
           "schedule policies (random, FIFO, LIFO, all-zero latency, "
           "inline-completion heavy); every response compared with the "
           "reference model; ",
    "C09": "one case = generated mutation operation (1..5 root fields with "
           "deferred nested selections, resolver errors at any position) "
           "under 5 configurations x schedule policies; happens-before check "
           "over the recorded event history; ",
    "C04": "one case = a history of 2..6 requests (own operation, variables, "
           "world, fault placement, configuration each) served by one "
           "long-lived schema object, with introspection / printing / "
           "validation / resolver re-registration in between; every response "
           "compared with the stateless reference model; ",
    "C10": "one case = 1..2 requests, a third of them hit by the fault model "
           "of the property (truncated anywhere, one character flipped, wrong "
           "variables, unknown operation name, syntax / validation errors), "
           "resolver faults and non-finite floats; response-format "
           "invariants on every response; ",
    "C16": "one case = request with 1..3 stacked recording instrumentations "
           "(+ApolloTracer on the virtual clock, with skew), 0..3 middlewares "
           "(plain or coroutine), all outcome classes, 5 configurations x "
           "schedule policies; pairing / exactly-once / nesting over the "
           "recorded hook history; ",
}


def evidence_meta(prop):
    return {
        "rule": _RULES[prop] + (
            "evaluations = configuration runs; distinct = distinct "
            "(configuration, resolver completion order) signatures; "
            "non-trivial = run had >= 2 concurrently pending kernel items "
            "and >= 1 injected fault"),
        "real_vs_stub": REAL_VS_STUB,
        "assumptions": [
            "operations are sampled by a generator; py-gql's own validator "
            "decides validity (a rejected operation is a discard, capped at "
            "5%)",
            "the simulator never produces a schedule the substrate forbids: "
            "asyncio's ready queue stays FIFO, a pool task never completes "
            "before it was submitted, callbacks run on the completing or "
            "attaching thread",
            "L1 explores completion orders at callback granularity; "
            "line-level interleavings of two callbacks are explored by "
            "ThreadSim (L2); pre-emption inside one bytecode line is not "
            "simulated",
            "every case runs in a freshly forked child of its worker (one "
            "case = one process lifetime): state py-gql keeps on module-level "
            "objects cannot leak from one case into the next, and a replay "
            "in a fresh interpreter starts from the same state",
        ],
    }
