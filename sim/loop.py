"""SimLoop -- a deterministic asyncio event loop on the kernel's virtual clock.

Real: asyncio.Task / Future / gather / coroutines, BaseEventLoop's ready queue
(FIFO, asyncio's own guarantee -- never reordered here) and timer heap.
Stub: the selector (no I/O exists), ``time()`` (virtual), and
``run_in_executor`` (no thread is started: the job becomes a kernel item whose
thunk runs the function atomically at its virtual completion time and resolves
the asyncio future, exactly like a worker thread handing back its result
through ``call_soon_threadsafe``).
"""
import asyncio
import asyncio.base_events
import itertools
import threading

from .kernel import Hang


_JOB = threading.local()


class _JobAbort(BaseException):
    pass


def sim_pause():
    """Called by synthetic resolvers: when running inside a threaded executor
    job, park here and let the simulator run other work (other executor jobs
    included) before resuming.  A no-op anywhere else."""
    job = getattr(_JOB, "current", None)
    if job is not None:
        job.pause()


class _ThreadedJob:
    """An executor job run in a real thread, one phase at a time: the thread
    runs until the resolver calls ``sim_pause()`` (or finishes) while the
    simulator thread waits, so two jobs can be *inside* their functions at the
    same virtual time -- as with a real ThreadPoolExecutor -- yet exactly one
    thread runs at any moment and the seeded scheduler decides who resumes."""

    def __init__(self, func, args):
        self.func, self.args = func, args
        self.to_main = threading.Semaphore(0)
        self.to_job = threading.Semaphore(0)
        self.started = False
        self.done = False
        self.abort = False
        self.result = None
        self.exc = None
        self.thread = threading.Thread(target=self._run, daemon=True)

    def _run(self):
        _JOB.current = self
        self.to_job.acquire()
        try:
            if not self.abort:
                self.result = self.func(*self.args)
        except _JobAbort:
            pass
        except BaseException as err:  # noqa: B902 - handed to the future
            self.exc = err
        self.done = True
        self.to_main.release()

    def step(self):
        """Run the next phase (simulator thread).  True when finished."""
        if not self.started:
            self.started = True
            self.thread.start()
        self.to_job.release()
        self.to_main.acquire()
        return self.done

    def pause(self):
        self.to_main.release()
        self.to_job.acquire()
        if self.abort:
            raise _JobAbort()

    def cancel(self):
        if self.started and not self.done:
            self.abort = True
            self.to_job.release()
            self.to_main.acquire(timeout=2.0)


class _FakeSelector:
    """select() is where a real loop blocks for I/O.  Here: when asyncio has
    nothing ready, run the next kernel item (advancing the virtual clock)."""

    def __init__(self, loop):
        self._loop = loop

    def select(self, timeout=None):
        loop = self._loop
        kernel = loop.kernel
        if timeout is not None and timeout <= 0:
            return []
        # Nothing is ready.  Either a kernel item or an asyncio timer is next.
        if timeout is None:
            # no asyncio timers: must be a kernel item, else deadlock
            if not kernel.step():
                raise Hang()
            return []
        next_timer = kernel.now + timeout
        if kernel.heap and kernel.heap[0][0] <= next_timer:
            kernel.step()
        else:
            kernel.now = next_timer
        return []

    def close(self):
        pass


class SimLoop(asyncio.base_events.BaseEventLoop):
    def __init__(self, kernel):
        super().__init__()
        self.kernel = kernel
        self._selector = _FakeSelector(self)
        self._task_counter = itertools.count()
        self.unhandled = []  # exception-handler contexts (never printed)
        self.executor_jobs = 0
        self.threaded_jobs = False  # executor jobs as pausable real threads
        self.overlapping_jobs = 0
        self._jobs = []
        self.set_exception_handler(self._on_unhandled)
        self.set_task_factory(self._make_task)
        # clock_resolution is used to round timers; virtual clock is exact
        self._clock_resolution = 1e-9

    # -- determinism ------------------------------------------------------
    def _make_task(self, loop, coro, **kwargs):
        name = "sim-task-%d" % next(self._task_counter)
        kwargs.pop("name", None)
        return asyncio.Task(coro, loop=loop, name=name, **kwargs)

    def _on_unhandled(self, loop, context):
        self.unhandled.append(
            (context.get("message"), type(context.get("exception")).__name__)
        )

    # -- BaseEventLoop seams ----------------------------------------------
    def time(self):
        return self.kernel.now

    def _process_events(self, event_list):
        pass

    def _write_to_self(self):
        pass

    def run_in_executor(self, executor, func, *args):
        fut = self.create_future()
        self.executor_jobs += 1
        kernel = self.kernel

        def job():
            try:
                res = func(*args)
            except BaseException as err:  # noqa: B902 - mirror futures.Future
                if isinstance(err, (KeyboardInterrupt, SystemExit)):
                    raise
                if not fut.done():
                    fut.set_exception(err)
            else:
                if not fut.done():
                    fut.set_result(res)

        if self.threaded_jobs:
            tj = _ThreadedJob(func, args)
            self._jobs.append(tj)

            def phase():
                if any(j.started and not j.done and j is not tj
                       for j in self._jobs):
                    self.overlapping_jobs += 1
                if tj.step():
                    if fut.done():
                        return
                    if tj.exc is not None:
                        fut.set_exception(tj.exc)
                    else:
                        fut.set_result(tj.result)
                else:
                    kernel.schedule(kernel.draw_latency("exec-resume"),
                                    "exec", phase)

            kernel.schedule(kernel.draw_latency("exec-lat"), "exec", phase)
            return fut
        kernel.schedule(kernel.draw_latency("exec-lat"), "exec", job)
        return fut

    def close(self):
        for j in self._jobs:
            j.cancel()
        self._jobs = []
        super().close()

    # asyncio.Runner/run_until_complete call these on shutdown paths
    async def shutdown_asyncgens(self):
        return None

    async def shutdown_default_executor(self, timeout=None):
        return None

    def sleep(self, delay):
        """Awaitable resolved by the kernel after ``delay`` virtual seconds
        (used by synthetic resolvers instead of asyncio.sleep so that ties are
        broken by the seeded scheduler, not by timer-heap insertion order)."""
        fut = self.create_future()

        def wake():
            if not fut.done():
                fut.set_result(None)

        self.kernel.schedule(delay, "wake", wake)
        return fut
