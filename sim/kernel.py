"""Discrete-event kernel: virtual clock, event heap, append-only event log.

The kernel owns *when* every deferred piece of work completes.  Work items are
``(at, tie, seq, kind, thunk)``; ``at = now + latency`` where the latency is a
draw from LATENCIES (the last two entries are the *stall* fault), ``tie`` is a
draw used to break ties between items due at the same virtual instant
(0 => FIFO), ``seq`` makes the order total.  When nothing else is runnable the
clock jumps to the next item, so an hour-long stall costs microseconds.
"""
import hashlib
import heapq

LATENCIES = (0.0, 0.001, 0.010, 1.0, 60.0, 3600.0)
# weights: most work is quick, stalls are rare but present
LAT_WEIGHTS = (6, 5, 4, 2, 1, 1)


class Hang(Exception):
    """Simulation is quiescent (no runnable work, empty heap) but the awaited
    top-level result is not done: a liveness violation."""


class StepCap(Exception):
    """Run exceeded its step budget: a harness error, never a verdict."""


class EventLog:
    """Append-only log of (gseq, vtime, actor, kind, path, payload)."""

    __slots__ = ("events", "kernel")

    def __init__(self, kernel):
        self.events = []
        self.kernel = kernel

    def add(self, kind, path=None, payload=None, actor=None):
        k = self.kernel
        self.events.append(
            (
                len(self.events),
                k.now,
                actor if actor is not None else k.actor,
                kind,
                tuple(path) if path is not None else None,
                payload,
            )
        )

    def digest(self):
        h = hashlib.sha256()
        for e in self.events:
            h.update(repr(e).encode("utf-8"))
            h.update(b"\n")
        return h.hexdigest()


class Kernel:
    def __init__(self, stream, policy=None, max_steps=20000):
        self.now = 0.0
        self.heap = []
        self.seq = 0
        self.stream = stream  # schedule stream of this configuration run
        self.actor = "main"
        self.log = EventLog(self)
        self.steps = 0
        self.deadlock = False  # every simulated pool worker is blocked
        self.max_steps = max_steps
        self.policy = policy or {"kind": "random"}
        self.stats = {
            "scheduled": 0,
            "completed": 0,
            "stalls": 0,
            "ties_reordered": 0,
            "inline_completions": 0,
            "max_pending": 0,
        }

    # -- scheduling -------------------------------------------------------
    def draw_latency(self, label="lat"):
        kind = self.policy.get("kind")
        if kind in ("zero", "inline", "pick"):
            return 0.0
        if kind == "fifo":
            return 0.001
        i = self.stream.weighted(LAT_WEIGHTS, label)
        if i >= 4:
            self.stats["stalls"] += 1
        return LATENCIES[i]

    def draw_tie(self):
        kind = self.policy.get("kind")
        if kind in ("fifo", "zero", "inline", "pick"):
            return 0
        if kind == "lifo":
            return -self.seq
        t = self.stream.below(4, "tie")
        return t

    def schedule(self, latency, kind, thunk, tag=None):
        self.seq += 1
        tie = self.draw_tie()
        heapq.heappush(
            self.heap, (self.now + latency, tie, self.seq, kind, thunk, tag)
        )
        self.stats["scheduled"] += 1
        if len(self.heap) > self.stats["max_pending"]:
            self.stats["max_pending"] = len(self.heap)
        return self.seq

    def pending(self):
        return len(self.heap)

    def step(self):
        """Pop and run the next item.  Returns False if the heap is empty."""
        if not self.heap:
            return False
        self.steps += 1
        if self.steps > self.max_steps:
            raise StepCap("step cap %d exceeded" % self.max_steps)
        if self.policy.get("kind") == "pick" and len(self.heap) > 1:
            # any in-flight item may complete next, whatever its latency
            i = self.stream.below(len(self.heap), "pick")
            item = self.heap[i]
            self.heap[i] = self.heap[-1]
            self.heap.pop()
            heapq.heapify(self.heap)
            at, tie, seq, kind, thunk, tag = item
        else:
            at, tie, seq, kind, thunk, tag = heapq.heappop(self.heap)
        if tie != 0:
            self.stats["ties_reordered"] += 1
        if at > self.now:
            self.now = at
        self.stats["completed"] += 1
        prev = self.actor
        self.actor = "%s#%d" % (kind, seq)
        try:
            thunk()
        finally:
            self.actor = prev
        return True

    def run_until(self, done):
        """Step until ``done()`` or quiescence."""
        while not done():
            if not self.step():
                raise Hang()

    def drain(self):
        while self.step():
            pass
