"""C17 engine: subscriptions on the simulated asyncio loop.

One case = one schema with a Subscription root, 1..3 concurrent subscriptions
(own executors, shared schema object and loop) and optionally one ordinary
query on the same loop.  Each subscription has a generated source stream
(pull / queue-fed / async generator) emitting n in 0..8 events at drawn virtual
times, a sync or asynchronous subscription resolver, deferred field resolvers
with faults placed per (event index, path), and a consumer with drawn pauses.
Plus labelled refusal scenarios.
"""
import asyncio
import hashlib

from py_gql import process_graphql_query
from py_gql.exc import ExecutionError
from py_gql.execution import subscribe
from py_gql.execution.runtime import (
    AsyncIORuntime,
    BlockingRuntime,
    ThreadPoolRuntime,
)
from py_gql.lang import parse

from . import oracles
from .harness import Boom, Bundle, ReqCtx, Recorder, make_default_attr
from .kernel import Hang, Kernel, StepCap
from .loop import SimLoop
from .model import expected_response
from .oracles import Violation
from .workload import OpGen, gen_schema, render
from .world import World
from .execsim import CaseResult, HarnessError, Discard

P = ("C17",)


class Event:
    """Source event; its repr is its identity in the world."""
    __slots__ = ("sub", "k")

    def __init__(self, sub, k):
        self.sub = sub
        self.k = k

    def __repr__(self):
        return "Event(%d,%d)" % (self.sub, self.k)


class AwaitableEvent:
    """An event that happens to be awaitable (a future-like handle the
    application passes along): it is the ROOT VALUE of that event's execution
    as it stands -- nobody is asked to await it."""
    __slots__ = ("sub", "k")

    def __init__(self, sub, k):
        self.sub = sub
        self.k = k

    def __await__(self):
        return Event(self.sub, self.k)
        yield  # pragma: no cover - makes this a generator

    def __repr__(self):
        return "AwaitableEvent(%d,%d)" % (self.sub, self.k)


class SubCtx(ReqCtx):
    is_subscription = True

    __slots__ = ("worlds", "sub_calls", "sub_kwargs", "source", "make_source",
                 "sub_async", "events_seen", "next_calls", "sub_root",
                 "event_values", "src_waiting")

    def select_event(self, event):
        # events of one subscription are processed one at a time, in order;
        # the event value itself may be anything (including None)
        k = len(self.events_seen)
        if k < len(self.worlds):
            self.world = self.worlds[k]
            self.faults = self.world.faults
        self.events_seen.append(
            event.k if isinstance(event, (Event, AwaitableEvent)) else k)


class PullSource:
    """Delay happens inside __anext__ (like a socket read)."""

    def __init__(self, ctx, sub, delays):
        self.ctx, self.sub, self.delays, self.i = ctx, sub, delays, 0

    def __aiter__(self):
        return self

    async def __anext__(self):
        ctx = self.ctx
        ctx.next_calls += 1
        ctx.log("src_next", None, (self.sub, self.i))
        if self.i >= len(self.delays):
            raise StopAsyncIteration()
        ctx.src_waiting = True
        try:
            await ctx.loop.sleep(self.delays[self.i])
        finally:
            ctx.src_waiting = False
        ev = ctx.event_values[self.i]
        ctx.log("src_emit", None, (self.sub, self.i))
        self.i += 1
        return ev


class QueueSource:
    """A producer task pushes events at its own pace; the consumer pops.
    Produces bursts and buffering when the consumer is slow."""

    _END = object()

    def __init__(self, ctx, sub, delays):
        self.ctx, self.sub = ctx, sub
        self.q = asyncio.Queue()
        self.task = ctx.loop.create_task(self._produce(delays))

    async def _produce(self, delays):
        for k, d in enumerate(delays):
            await self.ctx.loop.sleep(d)
            self.ctx.log("src_emit", None, (self.sub, k))
            self.q.put_nowait((self.ctx.event_values[k],))
        self.q.put_nowait(self._END)

    def __aiter__(self):
        return self

    async def __anext__(self):
        self.ctx.next_calls += 1
        self.ctx.log("src_next", None, (self.sub, -1))
        self.ctx.src_waiting = True
        try:
            item = await self.q.get()
        finally:
            self.ctx.src_waiting = False
        if item is self._END:
            self.q.put_nowait(self._END)
            raise StopAsyncIteration()
        return item[0]


def agen_source(ctx, sub, delays):
    async def gen():
        for k, d in enumerate(delays):
            ctx.next_calls += 1
            await ctx.loop.sleep(d)
            ctx.log("src_emit", None, (sub, k))
            yield ctx.event_values[k]
        ctx.next_calls += 1

    return gen()


SOURCES = ("pull", "queue", "agen")
DELAYS = (0.0, 0.0, 0.001, 0.010, 1.0, 60.0)


def _subscription_resolver(root, ctx, info, **kwargs):
    ctx.sub_calls += 1
    from .workload import gql_kwargs
    ctx.sub_kwargs = gql_kwargs(ctx.world.spec, kwargs)
    ctx.sub_root = root
    ctx.log("sub_resolver", tuple(info.path), ctx.req_id)
    if ctx.sub_async is None:
        return ctx.make_source()

    async def later():
        await ctx.loop.sleep(ctx.sub_async)
        return ctx.make_source()

    return later()


class _SnapErr:
    def __init__(self, d):
        self._d = d

    def to_dict(self):
        return self._d


class _Snap:
    """A result as it was when it was handed to the consumer."""

    def __init__(self, r):
        import copy
        self._resp = copy.deepcopy(r.response())
        self.data = copy.deepcopy(r.data)
        self.errors = [_SnapErr(copy.deepcopy(e.to_dict()))
                       for e in (r.errors or [])]

    def response(self):
        return self._resp

    def json(self):
        import json
        return json.dumps(self._resp)


class SubPlan:
    __slots__ = ("idx", "op", "text", "n", "delays", "pauses", "source_kind",
                 "sub_async", "faults", "wseeds", "exps", "scenario",
                 "initial_value", "async_for", "event_values",
                 "read_timeouts", "crash", "long", "shared")


REFUSALS = ("two-fields", "two-aliases", "two-via-fragment",
            "two-with-typename",
            "two-inside-one-fragment", "two-inside-inline-fragment",
            "no-resolver", "query-op", "mutation-op", "blocking-runtime",
            "pool-runtime", "meta-only")


_SYNC_BEHAVIOURS = ("sync", "default", "shared", "tdefault", "gen")


def _all_sync(spec, op):
    from .workload import _walk_selections
    names = {s_.name for s_ in _walk_selections(op) if s_.kind == "field"}
    return all(b in _SYNC_BEHAVIOURS
               for (t, f), b in spec.behaviours.items() if f in names)


def _plan(draws, spec, idx, scenario, sync_only=False):
    rs = draws.stream("sub%d" % idx)
    plan = SubPlan()
    plan.idx = idx
    plan.scenario = scenario
    which = "s1" if scenario == "no-resolver" else "s0"
    gen = OpGen(rs, spec, max_depth=1 + rs.below(3, "depth"),
                budget=6 + 6 * rs.below(2, "budget"),
                features={"sub_field": which})
    op = gen.generate("subscription")
    from .workload import FieldSel, InlineFrag, Spread, named
    if scenario == "ok" and rs.chance(1, 4, "root_shape"):
        # still exactly ONE root field after collection, but written through
        # fragments: must be accepted and behave like the plain form
        f = op.sel[0]
        shape = rs.below(3, "root_shape_kind")
        literal_args = not any(
            t.startswith(("$", "[", "{")) or t == "null" for _, t in f.args)
        if shape == 0:
            op.fragments["FR"] = (spec.subscription, [f])
            op.sel = [Spread("FR")]
        elif shape == 1:
            op.sel = [InlineFrag(
                spec.subscription if rs.below(2, "c") else None, [f])]
        elif literal_args:
            twin_sel = None
            fdef = spec.fields[f.name]
            if f.sel is not None:
                twin_sel = gen.gen_selset(named(fdef.type), 1)
            twin = FieldSel(f.name, alias=f.alias, args=f.args,
                            argspec=f.argspec, sel=twin_sel)
            twin.ptype = f.ptype
            op.fragments["FR"] = (spec.subscription, [twin])
            op.sel = [f, Spread("FR")]
        from .workload import resolve_op
        resolve_op(op, spec)
    if scenario in ("two-inside-one-fragment", "two-inside-inline-fragment"):
        extra = OpGen(rs, spec, max_depth=1, budget=4,
                      features={"sub_field": "s0"})
        extra.nvar = 100
        op2 = extra.generate("subscription")
        f2 = op2.sel[0]
        f2.alias = "other"
        op.vars.update(op2.vars)
        both = [op.sel[0], f2]
        if scenario == "two-inside-one-fragment":
            op.fragments["FX"] = (spec.subscription, both)
            op.sel = [Spread("FX")]
        else:
            op.sel = [InlineFrag(spec.subscription, both)]
    if scenario == "meta-only":
        # the single root field is a meta field: nothing to subscribe to
        kind = rs.below(3, "meta_kind")
        if kind == 0:
            m = FieldSel("__typename")
        elif kind == 1:
            m = FieldSel("__schema", sel=[
                FieldSel("queryType", sel=[FieldSel("name")])])
        else:
            m = FieldSel("__type", args=[("name", '"%s"' % spec.query)],
                         sel=[FieldSel("name")])
            m.kwargs = {"name": spec.query}
        m.ptype = spec.subscription
        op.sel = [m]
        op.vars.clear()
        op.fragments.clear()
    if scenario == "two-with-typename":
        # the subscription field first, then a meta field: two root fields
        tn = FieldSel("__typename", alias="t" if rs.below(2, "tn_alias")
                      else None)
        tn.ptype = spec.subscription
        if rs.below(2, "tn_via_fragment"):
            op.fragments["FT"] = (spec.subscription, [tn])
            op.sel.append(Spread("FT"))
        else:
            op.sel.append(tn)
    if scenario in ("two-fields", "two-aliases", "two-via-fragment"):
        extra = OpGen(rs, spec, max_depth=1, budget=4,
                      features={"sub_field":
                                "s1" if scenario == "two-fields" else "s0"})
        extra.nvar = 100  # keep variable names distinct
        op2 = extra.generate("subscription")
        f2 = op2.sel[0]
        if scenario == "two-aliases":
            f2.alias = "other"
        op.vars.update(op2.vars)
        if scenario == "two-via-fragment":
            f2.alias = "other"
            op.fragments["FX"] = (spec.subscription, [f2])
            from .workload import Spread
            op.sel.append(Spread("FX"))
        else:
            op.sel.append(f2)
    if scenario == "query-op":
        if spec.subscription == spec.query:
            # the subscription field itself, asked for as a QUERY
            op.kind = "query"
        else:
            op = OpGen(rs, spec, max_depth=1, budget=4).generate("query")
    if scenario == "mutation-op":
        op = OpGen(rs, spec, max_depth=1, budget=4).generate("mutation")
    if op.kind == "subscription":
        # An argument-coercion failure on the subscription root field is not
        # covered by any clause of C17: keep the root call well-formed.
        from .workload import resolve_op as _resolve
        for s_ in [x for x in _roots(op) if x.argerr]:
            for src in s_.argspec.values():
                if src[0] == "nnlistvar":
                    op.vars[src[1]].provided = False
                    op.vars[src[1]].json = op.vars[src[1]].py = None
        _resolve(op, spec)
    if scenario == "ok" and op.kind == "subscription" and \
            rs.chance(1, 5, "two_subscription_ops"):
        # a document holding TWO subscription operations, the one asked for
        # by name not being the first
        which_f = spec.fields["s0"]
        need = [a for a in which_f.args if a.type[0] == "NN"]
        lits = {"Int": "1", "String": '"x"', "Boolean": "true",
                "Float": "1.5", "ID": '"i"', "Color": "RED"}
        from .workload import named as _named
        if all(a.type[1][0] == "N" and _named(a.type) in lits for a in need):
            argtxt = ", ".join("%s: %s" % (a.name, lits[_named(a.type)])
                               for a in need)
            sub_sel = " { __typename }" if spec.is_composite(
                _named(which_f.type)) else ""
            op.extra_op = True
            op.extra_first = True
            op.extra_text = "subscription Other { other: s0%s%s }" % (
                "(%s)" % argtxt if argtxt else "", sub_sel)
            op.name = "Main"
            op.operation_name = "Main"
    plan.op = op
    plan.text = render(op, rs.below(4, "layout"), bool(rs.below(2, "frags_first")))
    plan.n = rs.below(9, "n_events")
    plan.long = False
    plan.shared = False
    if scenario == "ok" and rs.chance(1, 160, "long_stream"):
        # a stream that stays open: more than a thousand events, nearly all of
        # them failing somewhere -- whatever the executor shared by all events
        # accumulates (counters, caches, lists) has time to matter
        plan.long = True
        plan.n = 1050 + rs.below(300, "long_n")
    if plan.long:
        plan.delays = [DELAYS[0]] * plan.n
        plan.pauses = [DELAYS[0]] * (plan.n + 1)
    else:
        plan.delays = [DELAYS[rs.below(len(DELAYS), "delay")]
                       for _ in range(plan.n)]
        plan.pauses = [DELAYS[rs.below(len(DELAYS), "pause")]
                       for _ in range(plan.n + 1)]
    plan.source_kind = SOURCES[rs.below(len(SOURCES), "source")]
    plan.initial_value = ("IV%d" % idx) if rs.below(2, "initial") else None
    plan.async_for = bool(rs.below(2, "async_for"))
    # Fault: the consumer gives up on a read (timeout / keep-alive pattern)
    # while the source is still waiting for its next event, then reads again.
    # Only for sources whose __anext__ is safe to cancel (an async generator
    # is finalised by a cancelled read, so nothing is promised for it).
    plan.read_timeouts = []
    if plan.source_kind != "agen" and not plan.async_for and \
            rs.chance(1, 3, "cancel_reads"):
        plan.read_timeouts = [DELAYS[rs.below(len(DELAYS), "read_timeout")]
                              for _ in range(1 + rs.below(6, "n_timeouts"))]
    plan.sub_async = None
    if rs.chance(1, 2, "sub_async"):
        plan.sub_async = DELAYS[rs.below(len(DELAYS), "sub_lat")]
    if plan.long:
        w0 = rs.below(1 << 30, "wseed")
        plan.wseeds = [(w0 + 7919 * k) % (1 << 30) for k in range(plan.n)]
        plan.event_values = [Event(idx, k) for k in range(plan.n)]
    else:
        plan.wseeds = [rs.below(1 << 30, "wseed") for _ in range(plan.n)]
        # an event may be any value the application likes, None included
        plan.event_values = [
            None if rs.chance(1, 8, "none_event") else
            (AwaitableEvent(idx, k) if rs.chance(1, 8, "awaitable_event")
             else Event(idx, k))
            for k in range(plan.n)]
    plan.faults = [dict() for _ in range(plan.n)]
    plan.exps = []
    plan.crash = set()
    if scenario == "ok":
        fs = draws.stream("subfaults%d" % idx)
        for k in range(plan.n):
            ev = plan.event_values[k]
            base = expected_response(spec, op, World(spec, plan.wseeds[k]),
                                     root_value=ev)
            if plan.long:
                # (derived, not drawn: the recording stays short)
                if base.positions:
                    path, what = base.positions[
                        (k * 2654435761 >> 7) % len(base.positions)]
                    plan.faults[k][path] = "null" if what == "item" else "err"
                nf = 0
            else:
                nf = fs.weighted((3, 3, 2), "n_faults")
            for _ in range(nf):
                if not base.positions:
                    break
                path, what = base.positions[
                    fs.below(len(base.positions), "fault_at")]
                plan.faults[k][path] = "null" if what == "item" else (
                    "err", "null", "errx", "errs")[fs.below(4, "fault_kind")]
            plan.exps.append(None)
        # Fault: ONE ResolverError instance (a module-level NOT_FOUND, an
        # error kept by a failed shared future) raised while processing
        # several events, at whatever position each of them meets it.  Every
        # result is judged as it was when it was handed to the consumer (the
        # library hands back the application's own exception objects, and
        # records path and nodes on them: a result kept for later shows what
        # the LAST event wrote -- the listed C10 finding, not this clause).
        if plan.n >= 2 and not plan.long and fs.chance(1, 6, "shared_error"):
            ks = sorted({fs.below(plan.n, "shared_ev") for _ in range(3)})
            if len(ks) >= 2:
                for k in ks:
                    base = expected_response(
                        spec, op, World(spec, plan.wseeds[k]),
                        root_value=plan.event_values[k])
                    cand = [p for p, what in base.positions
                            if what == "field"]
                    if cand:
                        plan.faults[k] = {
                            p: f for p, f in plan.faults[k].items()
                            if f == "null"}
                        plan.faults[k][cand[fs.below(len(cand),
                                                     "shared_at")]] = "errsh"
                        plan.shared = True
        for k in range(plan.n):
            plan.exps[k] = expected_response(
                spec, op, World(spec, plan.wseeds[k], plan.faults[k]),
                root_value=plan.event_values[k])
        # Fault: the processing of ONE event dies of an unexpected exception
        # (after its other fields may have recorded resolver errors).  The
        # consumer catches it and goes on reading: whatever it is handed
        # afterwards belongs to the later events, and carries their errors
        # only.
        # Only where processing an event is one synchronous step (no executor
        # threads, no deferred resolver anywhere in the selection): otherwise
        # resolvers of the doomed event are still in flight when the crash
        # surfaces, finish during the NEXT event and record their errors in
        # the executor shared by all events -- an aftermath of unexpected
        # exceptions that no clause covers (DESIGN 8.5).
        if plan.n >= 2 and not plan.async_for and sync_only and \
                not plan.long and not plan.shared and \
                _all_sync(spec, op) and fs.chance(1, 2, "crash_event"):
            k = fs.below(plan.n - 1, "crash_at")
            ev = plan.event_values[k]
            base = plan.exps[k]
            cand = [p for p, what in base.positions if what == "field"]
            if cand:
                # a few more resolver errors in the doomed event
                for _ in range(2):
                    plan.faults[k].setdefault(
                        cand[fs.below(len(cand), "crash_err_at")], "err")
                at = cand[fs.below(len(cand), "crash_field")]
                plan.faults[k][at] = "boom%d" % fs.below(7, "crash_class")
                plan.exps[k] = expected_response(
                    spec, op, World(spec, plan.wseeds[k], plan.faults[k]),
                    root_value=ev)
                if plan.exps[k].crash:
                    plan.crash = {k}
    return plan


def _roots(op):
    out = []
    for s0 in op.sel:
        if s0.kind == "field":
            out.append(s0)
        elif s0.kind == "inline":
            out.extend(x for x in s0.sel if x.kind == "field")
        else:
            out.extend(x for x in op.fragments[s0.frag][1]
                       if x.kind == "field")
    return out


def _sub_kwargs(spec, op):
    from .workload import effective_kwargs
    return effective_kwargs(spec, spec.subscription, _root_field(op))


def _root_field(op):
    s0 = op.sel[0]
    if s0.kind == "field":
        return s0
    if s0.kind == "inline":
        return s0.sel[0]
    return op.fragments[s0.frag][1][0]


def run_case(draws, prop, tier="quick"):
    res = CaseResult()
    st = draws.stream("workload")
    spec = gen_schema(st, want_mutation=True, want_subscription=True)
    try:
        bundle = Bundle(spec)
    except Exception as err:  # noqa: B902
        raise HarnessError("generated schema rejected: %r\n%s"
                           % (err, spec.sdl()))
    bundle.schema.register_subscription(spec.subscription, "s0",
                                        _subscription_resolver)
    bundle.set_mode("asyncio")
    scenario = "ok"
    if st.chance(1, 5, "refusal"):
        scenario = REFUSALS[st.below(len(REFUSALS), "refusal_kind")]
    nsub = 1 if scenario != "ok" else 1 + st.weighted((4, 2, 1), "n_sub")
    with_query = scenario == "ok" and st.chance(1, 4, "with_query")
    in_thread = bool(st.below(2, "in_thread"))
    plans = [_plan(draws, spec, i, scenario, sync_only=not in_thread)
             for i in range(nsub)]
    qplan = None
    if with_query:
        qs = draws.stream("query")
        qop = OpGen(qs, spec, max_depth=2, budget=8).generate("query")
        qtext = render(qop, 0)
        qseed = qs.below(1 << 30, "wseed")
        qexp = expected_response(spec, qop, World(spec, qseed))
        qplan = (qop, qtext, qseed, qexp)

    sched = draws.stream("sched")
    kernel = Kernel(sched, policy={"kind": "random"}, max_steps=400000)
    loop = SimLoop(kernel)
    rt = AsyncIORuntime(loop=loop,
                        execute_blocking_functions_in_thread=in_thread)
    results = {}
    ctxs = {}
    V = res.violations

    async def consume(plan):
        ctx = SubCtx(World(spec, 0), kernel, "asyncio", loop=loop,
                     req_id=plan.idx)
        ctx.worlds = [
            World(spec, plan.wseeds[k], plan.faults[k],
                  make_default=make_default_attr)
            for k in range(plan.n)
        ]
        ctx.sub_calls = 0
        ctx.sub_kwargs = None
        ctx.sub_root = "unset"
        ctx.event_values = plan.event_values
        ctx.sub_async = plan.sub_async
        ctx.events_seen = []
        ctx.next_calls = 0
        ctx.src_waiting = False
        ctx.make_source = lambda: {
            "pull": lambda: PullSource(ctx, plan.idx, plan.delays),
            "queue": lambda: QueueSource(ctx, plan.idx, plan.delays),
            "agen": lambda: agen_source(ctx, plan.idx, plan.delays),
        }[plan.source_kind]()
        ctxs[plan.idx] = ctx
        got = []
        results[plan.idx] = got
        doc = parse(plan.text)
        runtime = rt
        if plan.scenario == "blocking-runtime":
            runtime = BlockingRuntime()
        elif plan.scenario == "pool-runtime":
            runtime = ThreadPoolRuntime(max_workers=1)
        try:
            stream = subscribe(
                bundle.schema, doc, variables=plan.op.variables,
                operation_name=plan.op.operation_name,
                initial_value=plan.initial_value,
                context_value=ctx, runtime=runtime,
                instrumentation=Recorder(lambda: kernel, "R0", plan.idx),
            )
            stream = await stream
        except Exception as err:  # noqa: B902 - outcome classification
            got.append(("refused", err))
            return
        finally:
            if plan.scenario == "pool-runtime":
                runtime._inner.shutdown(wait=False)
        if plan.async_for:
            # the consumer most code is written as
            k = 0
            try:
                await loop.sleep(plan.pauses[0])
                async for r in stream:
                    kernel.log.add("delivered", None, (plan.idx, k))
                    got.append(("result", _Snap(r) if plan.shared else r))
                    k += 1
                    if k > plan.n + 3:
                        got.append(("overrun", None))
                        return
                    await loop.sleep(plan.pauses[min(k, plan.n)])
                got.append(("end", None))
            except Exception as err:  # noqa: B902
                got.append(("raised", err))
            return
        it = stream.__aiter__()
        k = 0
        timeouts = list(plan.read_timeouts)

        async def read():
            while timeouts:
                t = loop.create_task(it.__anext__())
                await loop.sleep(timeouts.pop())
                if t.done() or not ctx.src_waiting:
                    # too late to give up: the event left the source
                    return await t
                t.cancel()
                try:
                    return await t
                except asyncio.CancelledError:
                    kernel.log.add("read_cancelled", None, (plan.idx, k))
                    ctx.stats["read_cancelled"] = \
                        ctx.stats.get("read_cancelled", 0) + 1
            return await it.__anext__()

        while True:
            await loop.sleep(plan.pauses[min(k, plan.n)])
            try:
                r = await read()
            except StopAsyncIteration:
                got.append(("end", None))
                break
            except Exception as err:  # noqa: B902
                if isinstance(err, Boom) and plan.crash:
                    # the injected crash of one event: note it, read on
                    kernel.log.add("event_crashed", None, (plan.idx, k))
                    got.append(("crashed", repr(err)))
                    k += 1
                    if k > plan.n + 3:
                        got.append(("overrun", None))
                        break
                    continue
                got.append(("raised", err))
                break
            kernel.log.add("delivered", None, (plan.idx, k))
            got.append(("result", _Snap(r) if plan.shared else r))
            k += 1
            if k > plan.n + 3:
                got.append(("overrun", None))
                break

    qout = {}

    async def run_query():
        qop, qtext, qseed, qexp = qplan
        ctx = ReqCtx(World(spec, qseed, make_default=make_default_attr),
                     kernel, "asyncio", loop=loop, req_id=99)
        await loop.sleep(kernel.draw_latency("q-start"))
        try:
            qout["result"] = await process_graphql_query(
                bundle.schema, qtext, variables=qop.variables,
                operation_name=qop.operation_name, context=ctx, runtime=rt)
        except Exception as err:  # noqa: B902
            qout["exc"] = err

    async def main():
        tasks = [loop.create_task(consume(p)) for p in plans]
        if qplan:
            tasks.append(loop.create_task(run_query()))
        await asyncio.gather(*tasks)

    status = "ok"
    try:
        loop.run_until_complete(main())
    except Hang:
        status = "hang"
    except StepCap:
        raise HarnessError("step cap hit in subscription run")
    finally:
        try:
            from .harness import _settle_and_close
            info = _settle_and_close(loop, kernel)
        except Exception:  # noqa: B902
            info = {"stuck_tasks": -1, "unhandled": 0, "executor_jobs": 0}

    # ---- oracles ----------------------------------------------------------
    for plan in plans:
        got = results.get(plan.idx, [])
        ctx = ctxs.get(plan.idx)
        sc = plan.scenario
        if sc != "ok":
            want = ExecutionError if sc.startswith("two-") else RuntimeError
            if not got or got[0][0] != "refused":
                V.append(Violation(P, "refusal", (sc, "not-refused"),
                                   "subscribe() returned a stream"))
            else:
                err = got[0][1]
                if not isinstance(err, want) or (
                        want is RuntimeError
                        and isinstance(err, ExecutionError)):
                    V.append(Violation(
                        P, "refusal", (sc, "wrong-exception"),
                        "got %r" % (err,)))
            if ctx is not None and (ctx.next_calls or ctx.events_seen):
                V.append(Violation(P, "refusal", (sc, "event-consumed"),
                                   "source polled %d times" % ctx.next_calls))
            res.count("scenario:" + sc)
            continue
        if status == "hang":
            ended = got and got[-1][0] == "end"
            if not ended:
                V.append(Violation(
                    P, "stream_end", ("hang",),
                    "loop quiescent, stream %d delivered %d/%d and did not "
                    "end" % (plan.idx, len(got), plan.n)))
            continue
        if got and got[0][0] == "refused":
            V.append(Violation(P, "refusal", ("ok", "refused-valid"),
                               "valid subscription refused: %r"
                               % (got[0][1],)))
            continue
        kinds = [g[0] for g in got]
        rs = [g[1] for g in got if g[0] == "result"]
        if "raised" in kinds:
            err = [g[1] for g in got if g[0] == "raised"][0]
            V.append(Violation(P, "event_result", ("raised",
                                                   type(err).__name__),
                               "stream raised %r after %d results"
                               % (err, len(rs))))
            continue
        entries = [g for g in got if g[0] in ("result", "crashed")]
        pairs = [(i, g[1]) for i, g in enumerate(entries)
                 if g[0] == "result"]
        if plan.crash:
            kc = min(plan.crash)
            bad = None
            for i, g in enumerate(entries):
                if i in plan.crash and g[0] == "result":
                    bad = ("crashed-event", "result")
                elif i not in plan.crash and g[0] == "crashed":
                    bad = ("raised", "Boom")
            if bad:
                V.append(Violation(
                    P, "event_result", bad,
                    "event %d was to die of an unexpected exception; the "
                    "consumer saw %r" % (kc, [g[0] for g in entries])))
                continue
            if len(entries) > plan.n or "overrun" in kinds or \
                    len(entries) <= kc:
                # (the stream ending early AFTER an event crashed is
                # tolerated: no clause says it has to go on)
                V.append(Violation(
                    P, "event_count",
                    ("more" if len(entries) > plan.n else "fewer",),
                    "%d reads answered for %d source events (event %d "
                    "crashes)" % (len(entries), plan.n, kc)))
                continue
            res.count("probe:event_crashed_consumer_continued")
        elif len(rs) != plan.n or "overrun" in kinds:
            V.append(Violation(
                P, "event_count",
                ("more" if len(rs) > plan.n else "fewer",),
                "%d results for %d source events" % (len(rs), plan.n)))
            continue
        if kinds[-1] != "end":
            V.append(Violation(P, "stream_end", ("no-end",), str(kinds)))
        if ctx.sub_calls != 1:
            V.append(Violation(P, "event_result", ("sub-resolver-calls",),
                               "subscription resolver ran %d times"
                               % ctx.sub_calls))
        elif ctx.sub_kwargs != _sub_kwargs(spec, plan.op):
            V.append(Violation(P, "event_result", ("sub-args",),
                               "%r != %r" % (ctx.sub_kwargs,
                                             _sub_kwargs(spec, plan.op))))
        if ctx.sub_calls == 1 and ctx.sub_root != plan.initial_value:
            V.append(Violation(P, "event_result", ("sub-root",),
                               "subscription resolver got root %r, "
                               "initial_value was %r" % (ctx.sub_root,
                                                         plan.initial_value)))
        if not plan.crash and ctx.events_seen != list(range(plan.n)):
            V.append(Violation(P, "event_order", ("processing-order",),
                               "events processed %r" % (ctx.events_seen,)))
        for k, r in pairs:
            exp = plan.exps[k]
            # (one error instance raised in several events keeps the nodes it
            # was given first -- part of the listed shared-instance finding of
            # C10 -- so locations are not compared for those plans; paths,
            # messages, counts and data are)
            vs = oracles.check_response(P, "asyncio", exp, r,
                                        locations=not plan.shared)
            for v in vs:
                # attribute foreign errors to the isolation clause
                if v.oracle == "error_multiset" and v.key[1] == "extra":
                    V.append(Violation(
                        P, "event_isolation", ("foreign-error",),
                        "event %d: %s" % (k, v.detail)))
                elif v.oracle == "data_mismatch":
                    # is it another event's data?
                    other = [j for j in range(plan.n) if j != k
                             and oracles.first_diff(plan.exps[j].data,
                                                    r.data) is None]
                    if other:
                        V.append(Violation(
                            P, "event_order", ("result-of-other-event",),
                            "result %d equals expected result %d"
                            % (k, other[0])))
                    else:
                        V.append(Violation(
                            P, "event_result", ("data", v.key[1]),
                            "event %d: %s" % (k, v.detail)))
                else:
                    V.append(Violation(
                        P, "event_result", ("errors",) + tuple(v.key[1:]),
                        "event %d: %s" % (k, v.detail)))
            for v in oracles.check_wellformed("execution", "asyncio", r,
                                              plan.text, exp):
                res.violations.append(v)
        # ---- C16 over the events of one subscription: the executor is
        # reused for every event, field hooks must still pair up per event
        want_hooks = {}
        for e in plan.exps:
            for pth in e.resolved:
                want_hooks[pth] = want_hooks.get(pth, 0) + 1
        got_start, got_end = {}, {}
        for _g, _vt, _actor, kind, pth, payload in kernel.log.events:
            if kind in ("field_start", "field_end") and \
                    payload == ("R0", plan.idx):
                d = got_start if kind == "field_start" else got_end
                d[pth] = d.get(pth, 0) + 1
        for edge, got_h in (() if plan.crash else
                            (("start", got_start), ("end", got_end))):
            bad = [pth for pth in set(want_hooks) | set(got_h)
                   if want_hooks.get(pth, 0) != got_h.get(pth, 0)]
            if bad:
                pth = sorted(bad, key=repr)[0]
                V.append(Violation(
                    ("C16",), "field_hooks",
                    ("subscription", edge, "count"),
                    "subscription %d, %d events: field_%s fired %d times for "
                    "path %r, the field is resolved in %d events" % (
                        plan.idx, plan.n, edge, got_h.get(pth, 0), pth,
                        want_hooks.get(pth, 0))))
                break
        res.count("events", plan.n)
        if plan.long:
            res.count("probe:long_stream")
        if plan.shared:
            res.count("probe:error_instance_shared_across_events")
        res.count("source:" + plan.source_kind)
        if plan.n == 0:
            res.count("probe:empty_stream")
        if plan.sub_async is not None:
            res.count("probe:async_subscription_resolver")
        nf = sum(len(f) for f in plan.faults)
        res.count("faults_placed", nf)
        for k2, v2 in ctx.stats.items():
            res.count("fired:" + k2, v2)
        res.count("field_instances", sum(len(e.resolved) for e in plan.exps))
    if qplan and status == "ok":
        if "exc" in qout:
            V.append(Violation(P, "event_isolation", ("query-raised",),
                               repr(qout["exc"])))
        else:
            for v in oracles.check_response(P, "asyncio", qplan[3],
                                            qout["result"]):
                V.append(Violation(P, "event_isolation", ("query-disturbed",),
                                   v.detail))
        res.count("probe:concurrent_query")
    res.count("runs")
    res.count("subscriptions", len(plans))
    res.count("sim_seconds_x1000", int(kernel.now * 1000))
    res.count("kernel_items", kernel.stats["completed"])
    res.count("stalls", kernel.stats["stalls"])
    res.count("stuck_tasks", max(0, info["stuck_tasks"]))
    res.count("status:" + status)
    ev = kernel.log.events
    res.digest = kernel.log.digest()
    order = tuple((e[3], e[5]) for e in ev
                  if e[3] in ("src_emit", "delivered"))
    sig = hashlib.sha256(repr(order).encode()).hexdigest()[:16]
    nontrivial = (sum(p.n for p in plans) >= 2
                  and any(any(f for f in p.faults) for p in plans))
    res.signatures.append((sig, nontrivial))
    res.samples = {
        "sdl": bundle.sdl, "scenario": scenario, "in_thread": in_thread,
        "subscriptions": [{
            "text": p.text, "variables": p.op.variables, "events": p.n,
            "delays": p.delays, "pauses": p.pauses, "source": p.source_kind,
            "async_subscription_resolver": p.sub_async,
            "read_timeouts": p.read_timeouts,
            "faults": [{"/".join(map(str, k)): v for k, v in f.items()}
                       for f in p.faults],
        } for p in plans],
        "interleaving": ["%s%r" % o for o in order][:60],
    }
    return res


def evidence_meta(prop):
    return {
        "rule": (
            "one case = 1..3 concurrent subscriptions (+ optional query) on "
            "one simulated asyncio loop; distinct = distinct interleaving of "
            "source-emit / result-delivered events across subscriptions; "
            "non-trivial = >= 2 source events in the case and >= 1 injected "
            "resolver fault"),
        "real_vs_stub": REAL_VS_STUB,
        "assumptions": [
            "asyncio's ready queue is FIFO (never reordered by the simulator)",
            "concurrent __anext__ calls on one response stream are not "
            "generated",
            "validity of generated operations is py-gql's own verdict "
            "(subscribe() is documented to assume a validated document)",
            "consumer-side fault: a read given up on (cancelled) and retried; "
            "injected only while the source is still waiting for its next "
            "event and only for sources whose __anext__ is safe to cancel "
            "(queue, pull), so that no event is legitimately lost",
        ],
    }


REAL_VS_STUB = {
    "real": ["py_gql.execution.subscribe", "py_gql AsyncIORuntime / AsyncMap",
             "py_gql Executor", "asyncio.Task/Future/gather/Queue"],
    "stub": ["event loop selector + clock (SimLoop on the virtual clock)",
             "run_in_executor (kernel items instead of threads)",
             "source event streams, resolvers, subscription resolvers "
             "(synthetic, generated)"],
}
